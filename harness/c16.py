"""C16 — queries are free of side effects.

Every public property / query method / export of every shape class (enumerated by reflection) is
run on real objects, alone and in ordered pairs, with everything the caller can see snapshotted
around it:  the state-bearing attributes of the object (values AND identity of the arrays), the
argument arrays (bitwise), the constructor's argument arrays, every array an earlier getter
handed out (values and whether it is still the shape's live array), the answer itself (repeat =
same), and the answer of the next member compared with the same member on an untouched twin.

The heap model (Model/Heap.lean, run through the driver) predicts for each query which returned
array is the live one / a new one, which attributes are re-bound, which caches appear, and — at
Float, fed with the centroids the real getters returned — the exact bits of the vertex array after
a move-and-move-back (B).  At Q (exact rationals, translation-equivariant centroid) it returns the
spec's answer: nothing changed.
"""
import copy
import inspect
import os
import random
import re
import tempfile
import warnings

import numpy as np

import gen
import history
from common import L, ModelRaise, exc_kind, read_shuffled

RULE = ("the ten shape classes on off-origin shapes in general position (random rigid motion, offset 1-10 diameters; "
        "gen.polygon2d / gen.convex_base bases, curved shapes with random semi-axes) x every public property, query "
        "method and export found by reflection (plus repr/str, save x 7 file types, coxeter.io.to_* x 7) x "
        "{member alone, ordered pair of members}; quick: every member alone + a fixed rotation of pairs, thorough: "
        "all ordered pairs; distinct = distinct (class, constructor arguments, member A, member B).  Deepening round: "
        "(order) ALL ordered pairs (q1 then q2 against q2 on a fresh twin) of the non-file members of every class on an "
        "off-origin tilted / near-tilted shape, also in the quick tier; (ctor) every class x input container (list, "
        "tuple, float64 C / Fortran order, non-contiguous view, float32, int64; (N,2) and (N,3); normal / centre in the "
        "same container) with byte snapshots and np.shares_memory after the constructor and after every query of a "
        "shuffled sequence, and the heap model's constructor run on the same input; (hist) shapes reached through "
        "mutators (history.via_history) with every hot member followed by a sweep of all public properties")
ASSUMPTIONS = [
    "observables = the public getters; the attributes _vertices/_normal/_centroid/_equations/_volume/_area/_radius/"
    "_a/_b/_c/_faces/_neighbors/_simplices are compared directly because each is returned as is by a public getter",
    "exact (bitwise) equality is demanded everywhere except for members that move the shape and move it back "
    "(to_hoomd, inertia_tensor, to_json of those): 2 ulp x scale (scale = largest coordinate magnitude, cubed for "
    "volumes), and for the documented random-retry members minimal_bounding_* (1e-6 relative)",
    "answers computed after a moved-and-moved-back shape are compared with the untouched twin at 1e-9 relative",
    "skip list (not queries): setters, mutators (diagonalize_inertia, merge_faces, sort_faces), plot, to_plato_scene "
    "(need matplotlib/plato), deprecated warn-only aliases",
    "model externals at the driver: centroid answers are the values the real getters returned (content-keyed table)",
    "a to_hoomd drift is classified as the known finding only if every coordinate of the vertex array moved by at "
    "most |c1| + 11 u S (theorem to_hoomd_drift_rounded: c1 = centroid the real getter returns for the centred shape, "
    "u = 2^-53, S = largest of |coordinate|, |c0|, |c1|) AND the Float run of the model reproduces the array bit for "
    "bit; anything larger is a violation",
    "Polyhedron keeps the caller's FACE index arrays (self._faces = [face for face in faces]); no query writes them "
    "(checked bit for bit), the aliasing itself is a constructor matter (C15) and is only counted",
]

EPS = float(np.finfo(float).eps)
ULPS = 2.0
CLS_ORDER = ["Circle", "Ellipse", "Sphere", "Ellipsoid", "Polygon", "ConvexPolygon", "ConvexSpheropolygon",
             "Polyhedron", "ConvexPolyhedron", "ConvexSpheropolyhedron"]
CLS_CODE = {n: i for i, n in enumerate(CLS_ORDER)}
VERTEX_CLASSES = CLS_ORDER[4:]
# classes whose to_hoomd moves the live vertex array to the origin and back (C16.MovesVerts in the Lean model)
MOVES_VERTS = ("Polygon", "ConvexPolygon", "Polyhedron", "ConvexPolyhedron", "ConvexSpheropolyhedron")
FILETYPES = ["OBJ", "OFF", "STL", "PLY", "VTK", "X3D", "HTML"]
FMT_CODE = {t: i for i, t in enumerate(FILETYPES)}

SKIP = {
    "plot": "draws with matplotlib (not a query of the shape's value)",
    "to_plato_scene": "needs the optional plato package",
    "bounding_circle": "deprecated warn-only alias of minimal_bounding_circle",
    "bounding_sphere": "deprecated warn-only alias of minimal_bounding_sphere",
    "incircle_from_center": "deprecated warn-only alias of maximal_centered_bounded_circle",
    "insphere_from_center": "deprecated warn-only alias of maximal_centered_bounded_sphere",
    "circumsphere_from_center": "deprecated warn-only alias of minimal_centered_bounding_sphere",
    "diagonalize_inertia": "mutator (rotates the shape) - property C03",
    "merge_faces": "mutator - property C03",
    "sort_faces": "mutator - property C03",
}
# members that internally translate the shape and translate it back
MOVERS = {"to_hoomd", "inertia_tensor", "to_json"}
RANDOM_RETRY = {"minimal_bounding_circle", "minimal_bounding_sphere", "minimal_bounding_circle_radius",
                "minimal_bounding_sphere_radius"}
# integer structure the classes hand out by reference (outside the numeric heap model; documented live)
LIVE_STRUCTURE = {"_faces", "_neighbors", "_simplices", "edges", "_coplanar_simplices", "_simplex_neighbors"}
# attribute -> public getter that returns it unchanged
PUBLIC_ATTR = {"_vertices": "vertices", "_normal": "normal", "_centroid": "centroid", "_equations": "equations",
               "_volume": "volume", "_area": "surface_area", "_radius": "radius", "_a": "a", "_b": "b", "_c": "c",
               "_faces": "faces", "_neighbors": "neighbors", "_simplices": "simplices"}
CACHE_KEYS = {"_simplex_areas", "_face_centroids", "edges"}
GETTER_CODE = {"vertices": 0, "normal": 1, "centroid": 2, "center": 2, "equations": 3, "normals": 4,
               "face_centroids": 5, "edges": 6, "inertia_tensor": 7}
MODEL_ATTRS = ["_vertices", "_normal", "_centroid", "_equations", "_simplex_equations"]
WHERE = {1: "_vertices", 2: "_normal", 3: "_centroid", 4: "_equations", 5: "_simplex_equations", 6: "edges",
         7: "_face_centroids", 8: "_simplex_areas"}


# --------------------------------------------------------------------------- shapes

def shapes_mod():
    import coxeter
    return coxeter.shapes


def gen_params(rng, cls, force_plane=None, max_verts=14):
    """constructor arguments (JSON-able) of an off-origin shape in general position (planar classes: in the xy-plane,
    in an almost-but-not-exactly axis-aligned plane, or in a random plane; `force_plane` picks one)."""
    if cls in ("Circle", "Sphere"):
        return {"radius": float(rng.uniform(0.3, 3.0)), "center": off_centre(rng, 2.0, flat=(cls == "Circle"))}
    if cls == "Ellipse":
        return {"a": float(rng.uniform(0.5, 3.0)), "b": float(rng.uniform(0.3, 2.0)), "center": off_centre(rng, 2.0, True)}
    if cls == "Ellipsoid":
        return {"a": float(rng.uniform(0.5, 3.0)), "b": float(rng.uniform(0.3, 2.0)), "c": float(rng.uniform(0.4, 2.5)),
                "center": off_centre(rng, 2.0)}
    if cls in ("Polygon", "ConvexPolygon", "ConvexSpheropolygon"):
        convex = cls != "Polygon"
        kind = ["convex", "rect", "triangle"][int(rng.integers(3))] if convex else \
            ["star", "comb", "spiral", "lattice", "reflex_first"][int(rng.integers(5))]
        for _ in range(50):
            try:
                _, p2 = gen.polygon2d(rng, kind=kind)
            except Exception:
                _, p2 = gen.polygon2d(rng)
                if convex:
                    continue
            if len(p2) <= 12:
                break
        r = rng.random()
        plane = "xy" if (cls == "ConvexSpheropolygon" or r < 0.25) else ("neartilt" if r < 0.5 else "random")
        if force_plane is not None and cls != "ConvexSpheropolygon":
            plane = force_plane
        v, fr = gen.embed_polygon(rng, p2, plane=plane, offset_diams=float(rng.uniform(1.0, 10.0)))
        out = {"vertices": v.tolist()}
        nrm = np.array(fr["n"])
        if cls == "Polygon" and rng.random() < 0.2:
            # the same polygon described with the opposite orientation: clockwise vertices, explicit opposite normal
            out["vertices"] = v[::-1].tolist()
            out["normal"] = (-nrm * float(rng.uniform(0.5, 3.0))).tolist()
        elif rng.random() < 0.5:
            out["normal"] = (nrm * float(rng.uniform(0.5, 3.0))).tolist()   # not unit length
        if cls == "ConvexSpheropolygon":
            out["radius"] = 0.0 if rng.random() < 0.1 else float(rng.uniform(0.1, 0.6)) * gen.diameter(v)
        return out
    # polyhedra
    kind = ["box", "prism", "antiprism", "pyramid", "dipyramid", "simplex", "ellipsoid", "lattice"][int(rng.integers(8))]
    for _ in range(50):
        try:
            _, base = gen.convex_base(rng, kind=kind)
        except Exception:
            _, base = gen.convex_base(rng, kind="box")
        if 4 <= len(base) <= max_verts and gen.in_convex_position(base):
            break
        kind = "box" if max_verts >= 8 else "simplex"
    v, info = gen.place(rng, base, offset_diams=float(rng.uniform(1.0, 10.0)), scale=1.0)
    out = {"vertices": v.tolist()}
    if cls == "Polyhedron":
        cp = shapes_mod().ConvexPolyhedron(v)
        out["vertices"] = cp.vertices.tolist()
        out["faces"] = [[int(i) for i in f] for f in cp.faces]
    if cls == "ConvexSpheropolyhedron":
        out["radius"] = 0.0 if rng.random() < 0.1 else float(rng.uniform(0.05, 0.4)) * gen.diameter(v)
    return out


def off_centre(rng, size, flat=False):
    u = rng.normal(size=3)
    u /= np.linalg.norm(u)
    c = u * size * float(rng.uniform(1.0, 10.0))
    if flat:
        c[2] = float(rng.uniform(-3, 3))
    return c.tolist()


def build(cls, params):
    """returns (shape, constructor argument arrays)."""
    S = shapes_mod()
    C = getattr(S, cls)
    args = {}
    for k in ("vertices", "normal", "center"):
        if k in params:
            args[k] = np.array(params[k], dtype=float)
    if cls in ("Circle", "Sphere"):
        sh = C(params["radius"], args["center"])
    elif cls == "Ellipse":
        sh = C(params["a"], params["b"], args["center"])
    elif cls == "Ellipsoid":
        sh = C(params["a"], params["b"], params["c"], args["center"])
    elif cls in ("Polygon", "ConvexPolygon"):
        sh = C(args["vertices"], normal=args.get("normal"))
    elif cls == "ConvexSpheropolygon":
        sh = C(args["vertices"], params["radius"], normal=args.get("normal"))
    elif cls == "Polyhedron":
        sh = C(args["vertices"], [np.array(f) for f in params["faces"]])
    elif cls == "ConvexPolyhedron":
        sh = C(args["vertices"])
    else:
        sh = C(args["vertices"], params["radius"])
    return sh, args


def core_of(shape):
    """the object that keeps the arrays (the spheroshapes delegate)."""
    d = vars(shape)
    if "_polygon" in d:
        return d["_polygon"]
    if "_polyhedron" in d:
        return d["_polyhedron"]
    return shape


def is_shape(x):
    from coxeter.shapes.base_classes import Shape
    return isinstance(x, Shape)


# --------------------------------------------------------------------------- members by reflection

class Member:
    def __init__(self, key, name, kind, variant=None):
        self.key, self.name, self.kind, self.variant = key, name, kind, variant


def members_of(C):
    """every public property and callable of the class, minus SKIP and setters-only; plus repr/str and the
    file exports for classes that have `save`."""
    out, skipped, unknown = [], [], []
    for n in sorted(dir(C)):
        if n.startswith("_"):
            continue
        if n in SKIP:
            skipped.append(n)
            continue
        a = inspect.getattr_static(C, n)
        if isinstance(a, property) or type(a).__name__ == "cached_property":
            out.append(Member(n, n, "prop"))
        elif callable(a) or isinstance(a, (staticmethod, classmethod)):
            if n == "save":
                for t in FILETYPES:
                    out.append(Member("save:" + t, n, "save", t))
                for t in FILETYPES:
                    out.append(Member("io.to_" + t.lower(), "to_" + t.lower(), "io", t))
            elif n == "get_face_area":
                out.append(Member("get_face_area", n, "method", "none"))
                out.append(Member("get_face_area[ids]", n, "method", "ids"))
                out.append(Member("get_face_area[list]", n, "method", "list"))
            else:
                out.append(Member(n, n, "method"))
    out.append(Member("repr", "__repr__", "dunder"))
    out.append(Member("str", "__str__", "dunder"))
    return out, skipped


def member_args(shape, m, case):
    """positional arguments for a method; arrays are new objects owned by the caller."""
    rng = np.random.default_rng([int(case.get("argseed", 0)), len(m.key)])
    core = core_of(shape)
    if hasattr(core, "_vertices"):
        cen = core._vertices.mean(axis=0)
        size = float(np.abs(core._vertices - cen).max())
    else:
        cen = np.array(vars(shape)["_centroid"], dtype=float)
        size = 1.0
    n = m.name
    if n == "is_inside":
        # the centre, points around the shape, a point with tiny coordinates near the ORIGIN and a far one: shifting
        # the caller's array by the centroid in place and shifting it back loses the low bits of the last two
        pts = cen + np.vstack([np.zeros((1, 3)), rng.normal(size=(4, 3)) * size * 3.0 + 7.0 * size])
        pts = np.vstack([pts, rng.normal(size=(1, 3)) * 1e-3 * size, cen + rng.normal(size=(1, 3)) * 1e3 * size])
        return [pts]
    if n == "compute_form_factor_amplitude":
        return [rng.normal(size=(4, 3)) / max(size, 1e-3)]
    if n == "distance_to_surface":
        # always some angles outside [0, 2 pi): an in-place range reduction must show
        return [np.concatenate([[-0.75, 6.9, 2 * np.pi], rng.uniform(0.0, 6.0, size=3)])]
    if n == "get_face_area":
        # unsorted ids: an in-place sort / unique of the caller's index array must show
        return [] if m.variant == "none" else ([np.array([2, 0, 1])] if m.variant == "ids" else [[1, 0]])
    if n == "get_dihedral":
        nb = getattr(core, "_neighbors", None)
        return [0, int(nb[0][0])] if nb is not None else [0, 1]
    if n == "to_json":
        return [list(case.get("json_attrs", ["gsd_shape_spec"]))]
    # anything else: call with the defaults if possible
    try:
        sig = inspect.signature(getattr(type(shape), n))
        req = [p for p in list(sig.parameters.values())[1:]
               if p.default is inspect._empty and p.kind in (p.POSITIONAL_ONLY, p.POSITIONAL_OR_KEYWORD)]
    except (TypeError, ValueError):
        req = []
    if req:
        return None
    return []


def pin_randomness():
    """miniball picks pivots with `random.choice`, the retry of minimal_bounding_* rotates with rowan.random
    (numpy's global generator): pinned before every call so that a repetition sees the same draws."""
    random.seed(16)
    np.random.seed(16)


def call_member(shape, m, case, tmpdir):
    """(answer | exception, argument objects)."""
    args = []
    pin_randomness()
    try:
        with warnings.catch_warnings():
            warnings.simplefilter("ignore")
            if m.kind == "prop":
                return getattr(shape, m.name), args
            if m.kind == "dunder":
                return getattr(shape, m.name)(), args
            if m.kind in ("save", "io"):
                fn = os.path.join(tmpdir, "c16_%s.%s" % (m.kind, m.variant.lower()))
                if m.kind == "save":
                    shape.save(m.variant, fn)
                else:
                    import coxeter.io
                    getattr(coxeter.io, m.name)(shape, fn)
                mode = "rb"
                with open(fn, mode) as f:
                    data = f.read()
                os.remove(fn)
                return data.decode("utf-8", "replace"), args
            a = member_args(shape, m, case)
            if a is None:
                return UNCALLABLE, args
            args = a
            return getattr(shape, m.name)(*a), args
    except Exception as e:  # noqa: BLE001 - the exception IS the answer
        return Raised(exc_kind(e)), args


class Raised:
    def __init__(self, kind):
        self.kind = kind


UNCALLABLE = object()


# --------------------------------------------------------------------------- canonical answers

def canon(x, depth=0):
    if isinstance(x, Raised):
        return ("raise", x.kind)
    if x is UNCALLABLE:
        return ("uncallable",)
    if isinstance(x, np.ndarray):
        return ("arr", x.dtype.kind, tuple(x.shape), np.array(x, copy=True))
    if isinstance(x, (bool, np.bool_)):
        return ("b", bool(x))
    if isinstance(x, (int, np.integer)):
        return ("i", int(x))
    if isinstance(x, (float, np.floating)):
        return ("f", float(x))
    if isinstance(x, (complex, np.complexfloating)):
        return ("c", complex(x))
    if isinstance(x, str) or x is None:
        return ("s", x)
    if isinstance(x, dict):
        return ("d", [(str(k), canon(v, depth + 1)) for k, v in x.items()])
    if isinstance(x, (list, tuple)):
        return ("l", [canon(v, depth + 1) for v in x])
    if is_shape(x) and depth < 4:
        return ("shape", type(x).__name__, canon({k: v for k, v in sorted(vars(x).items())}, depth + 1))
    return ("o", repr(x))


NUM = re.compile(r"[-+]?(?:\d+\.?\d*|\.\d+)(?:[eE][-+]?\d+)?")


def same(a, b, rel, floor=0.0):
    """structural equality; numbers within rel * max(magnitude, floor) (rel = 0: exact, NaN == NaN);
    with rel > 0 the numbers printed inside strings (repr, file exports) are compared as numbers."""
    if a[0] != b[0]:
        # ints and floats of equal value are the same answer
        if {a[0], b[0]} <= {"i", "f", "b"}:
            return same(("f", float(a[1])), ("f", float(b[1])), rel, floor)
        return False
    t = a[0]
    if t == "arr":
        if a[1] != b[1] and not ({a[1], b[1]} <= set("iuf")):
            return False
        if a[2] != b[2]:
            return False
        x, y = a[3], b[3]
        if x.dtype.kind in "OSU" or y.dtype.kind in "OSU":
            return bool(np.array_equal(x, y))
        if x.dtype.kind in "biu" and y.dtype.kind in "biu":
            return bool(np.array_equal(x, y))
        if rel == 0:
            return bool(np.array_equal(x, y, equal_nan=x.dtype.kind in "fc"))
        x = x.astype(complex if "c" in (x.dtype.kind, y.dtype.kind) else float)
        y = y.astype(x.dtype)
        fin = np.isfinite(x) & np.isfinite(y)
        if not np.array_equal(np.isfinite(x), np.isfinite(y)):
            return False
        if not np.any(fin):
            return True
        mag = max(float(np.abs(x[fin]).max()), float(np.abs(y[fin]).max()), floor, 1e-300)
        return bool(np.all(np.abs(x[fin] - y[fin]) <= rel * mag))
    if t in ("f", "c"):
        x, y = a[1], b[1]
        if x != x and y != y:
            return True
        if rel == 0:
            return x == y
        return abs(x - y) <= rel * max(abs(x), abs(y), floor, 1e-300)
    if t in ("s", "o") and rel > 0 and isinstance(a[1], str) and isinstance(b[1], str) and a[1] != b[1]:
        if NUM.sub("#", a[1]) != NUM.sub("#", b[1]):
            return False
        xs = np.array([float(v) for v in NUM.findall(a[1])])
        ys = np.array([float(v) for v in NUM.findall(b[1])])
        return same(("arr", "f", xs.shape, xs), ("arr", "f", ys.shape, ys), rel, floor)
    if t in ("b", "i", "s", "o", "raise", "uncallable"):
        return a[1:] == b[1:]
    if t == "l":
        return len(a[1]) == len(b[1]) and all(same(p, q, rel, floor) for p, q in zip(a[1], b[1]))
    if t == "d":
        return [k for k, _ in a[1]] == [k for k, _ in b[1]] and \
            all(same(p[1], q[1], rel, floor) for p, q in zip(a[1], b[1]))
    if t == "shape":
        return a[1] == b[1] and same(a[2], b[2], rel, floor)
    return False


def brief(c):
    s = repr(c)
    return s if len(s) < 300 else s[:300] + "..."


# --------------------------------------------------------------------------- state, aliasing

def state_arrays(shape):
    """{path: ndarray} for every array reachable from vars(shape) (nested shapes, lists)."""
    out = {}

    def walk(prefix, v, depth):
        if isinstance(v, np.ndarray):
            out[prefix] = v
        elif isinstance(v, (list, tuple)) and depth < 3:
            for i, e in enumerate(v):
                walk("%s[%d]" % (prefix, i), e, depth + 1)
        elif is_shape(v) and depth < 3:
            for k, e in vars(v).items():
                walk("%s.%s" % (prefix, k), e, depth + 1)

    for k, v in vars(shape).items():
        walk(k, v, 0)
    return out


def attr_of(path):
    """last attribute name of a state path: `_polygon._vertices` -> `_vertices`, `_faces[3]` -> `_faces`."""
    return path.split(".")[-1].split("[")[0]


def snapshot(shape):
    """values and identities of the state: {path: (object, copy)} plus the scalar attributes."""
    arrs = {p: (a, np.array(a, copy=True)) for p, a in state_arrays(shape).items()}
    scal = {}

    def walk(prefix, obj):
        for k, v in vars(obj).items():
            if isinstance(v, (bool, int, float, np.floating, np.integer)):
                scal[prefix + k] = v
            elif is_shape(v):
                walk(prefix + k + ".", v)

    walk("", shape)
    return arrs, scal


def arrays_in(x, prefix="", depth=0):
    """every ndarray inside an answer: [(path, array)] (into lists, dicts and returned shape objects)."""
    out = []
    if isinstance(x, np.ndarray):
        out.append((prefix, x))
    elif isinstance(x, dict) and depth < 4:
        for k, v in x.items():
            out += arrays_in(v, "%s.%s" % (prefix, k), depth + 1)
    elif isinstance(x, (list, tuple)) and depth < 4:
        for i, v in enumerate(x):
            out += arrays_in(v, "%s[%d]" % (prefix, i), depth + 1)
    elif is_shape(x) and depth < 4:
        for k, v in vars(x).items():
            out += arrays_in(v, "%s.%s" % (prefix, k), depth + 1)
    return out


def alias_of(arr, shape):
    """state path whose memory `arr` shares (None: a new array)."""
    for p, a in state_arrays(shape).items():
        if a is arr or (a.size and arr.size and np.shares_memory(a, arr)):
            return p
    return None


def scale_of(shape):
    core = core_of(shape)
    if hasattr(core, "_vertices"):
        return max(float(np.abs(core._vertices).max()), 1e-300)
    c = np.asarray(vars(shape).get("_centroid", [1.0]), dtype=float)
    return max(float(np.abs(c).max()), 1.0)


def attr_tol(attr, arr_before, Ls):
    """2 ulp x natural scale, elementwise array of tolerances."""
    if attr in ("_equations", "_simplex_equations"):
        t = np.full(arr_before.shape, ULPS * EPS)
        t[..., 3] = ULPS * EPS * Ls
        return t
    return np.full(np.shape(arr_before), ULPS * EPS * Ls)


# --------------------------------------------------------------------------- model correspondence (B)

def flat(a):
    return L(list(np.asarray(a, dtype=float).ravel()))


def model_query(m, case):
    """the model's Query for a member: (tokens, kind) or None when the member is outside the model."""
    if m.kind == "prop":
        if m.name in GETTER_CODE:
            return [0, GETTER_CODE[m.name]]
        return [0, 8]
    if m.kind == "dunder":
        return [0, 8]
    if m.kind in ("save", "io"):
        return [4, FMT_CODE[m.variant]]
    if m.name == "to_hoomd":
        return [3]
    if m.name == "get_face_area":
        return [2]
    if m.name == "to_json":
        gs = [GETTER_CODE.get(a, 8) for a in case.get("json_attrs", [])]
        return [1, L(gs)]
    if m.name in ("is_inside", "compute_form_factor_amplitude", "distance_to_surface"):
        return [5]
    return [0, 8]


def moves(m, case, cls):
    """does this execution translate the shape and translate it back?"""
    if cls not in VERTEX_CLASSES:
        return False
    if m.name == "to_hoomd":
        return True
    if m.name == "inertia_tensor" and m.kind == "prop":
        return cls in ("Polygon", "ConvexPolygon")
    if m.name == "to_json":
        return cls in ("Polygon", "ConvexPolygon") and "inertia_tensor" in case.get("json_attrs", [])
    return False


def centroid_tables(shape, cls, after=None):
    """what the centroid getters answer, keyed by the content of the vertex array they are asked about:
    at the current position, and at the centred position (obtained on a deep copy)."""
    core = core_of(shape)
    cen, cenv = [], []
    if not hasattr(core, "_vertices"):
        return cen, cenv
    with warnings.catch_warnings():
        warnings.simplefilter("ignore")
        cp = copy.deepcopy(core)
        try:
            c0 = np.array(cp.centroid, dtype=float)
            cp.centroid = np.array([0, 0, 0])
            c1 = np.array(cp.centroid, dtype=float)
            v1 = np.array(cp.vertices, dtype=float)
        except Exception:  # noqa: BLE001
            return cen, cenv
    if cls in ("ConvexPolyhedron", "ConvexSpheropolyhedron"):
        cenv.append((v1, c1))
        if after is not None:
            cenv.append(after)
    else:
        cen.append((np.array(core._vertices, dtype=float), c0))
        cen.append((v1, c1))
    return cen, cenv


def table_tokens(tbl):
    return L([[flat(k), np.asarray(v, dtype=float)] for k, v in tbl])


def run_model(ctx, mode, cls, pre, m, case, arg, tables, reps=1):
    """pre = attribute values before the query (from the snapshot)."""
    q = model_query(m, case)
    cen, cenv = tables
    req = [CLS_CODE[cls], flat(pre.get("_vertices", [])), flat(pre.get("_normal", [])), flat(pre.get("_centroid", [])),
           flat(pre.get("_equations", [])), flat(pre.get("_simplex_equations", [])), float(pre.get("_volume", 0.0)),
           1 if pre.get("edges_cached") else 0, flat(arg if arg is not None else []), 0 if mode == "F" else 1,
           table_tokens(cen), table_tokens(cenv), reps] + q
    r = ctx.driver.F("heap.run", *req) if mode == "F" else ctx.driver.Q("heap.run", *req)
    it = iter(r)
    out = {"err": next(it)}
    n = next(it)
    out["rets"] = [(next(it), next(it)) for _ in range(n)]
    out["bound"] = [next(it) for _ in range(5)]
    out["caches"] = [next(it) for _ in range(3)]

    def rd_list():
        k = next(it)
        return [next(it) for _ in range(k)]

    out["orig"] = [rd_list() for _ in range(4)]
    out["now"] = [rd_list() for _ in range(3)]
    out["ret_contents"] = [rd_list() for _ in range(n)]
    return out


def bits(a):
    return np.asarray(a, dtype=float).ravel().view(np.uint64) if len(a) else np.zeros(0, dtype=np.uint64)


# --------------------------------------------------------------------------- one execution, fully observed

class Trial:
    """one shape under test with everything the caller holds."""

    def __init__(self, ctx, case, tmpdir):
        self.ctx, self.case, self.tmpdir = ctx, case, tmpdir
        self.cls = case["cls"]
        self.shape, self.ctor_args = build(self.cls, case["params"])
        self.ctor_bytes = {k: a.tobytes() for k, a in self.ctor_args.items()}
        self.members, _ = members_of(type(self.shape))
        self.by_key = {m.key: m for m in self.members}
        self.handed = []      # (label, array object, copy, live path at hand-out time)
        self.moved = False    # a move-and-move-back happened earlier in this history
        self.Ls = scale_of(self.shape)

    def fail(self, member, clause, what, detail):
        self.ctx.fail("%s.%s:%s" % (self.cls, member, clause), what, self.case, detail)

    # ---- constructor arguments
    def check_ctor_args(self, when):
        for k, a in self.ctor_args.items():
            if a.tobytes() != self.ctor_bytes[k]:
                self.fail("__init__" if when == "__init__" else when, "argument-modified:" + k,
                          "the caller's %s array passed to the constructor was modified" % k,
                          [k, a.tolist()])
                self.ctor_bytes[k] = a.tobytes()
            p = alias_of(a, self.shape)
            if p is not None and when == "__init__":
                self.fail("__init__", "keeps-caller-array:" + k,
                          "the shape keeps the caller's %s array instead of a copy" % k, [k, p])

    # ---- hand-outs
    def hand_out(self, label, answer):
        for path, arr in arrays_in(answer):
            if any(arr is h[1] for h in self.handed):
                continue
            self.handed.append((label + path, arr, np.array(arr, copy=True), alias_of(arr, self.shape)))

    def check_handed(self, member, mover, predicted_rebound):
        for i, (label, arr, val, live) in enumerate(self.handed):
            eq_nan = arr.dtype.kind in "fc"
            changed = not np.array_equal(arr, val, equal_nan=eq_nan)
            if changed:
                ok = False
                if (mover or self.moved) and arr.dtype.kind == "f" and arr.shape == val.shape:
                    d = float(np.max(np.abs(arr - val)))
                    if d <= ULPS * EPS * self.Ls:
                        ok = True
                    elif mover and d <= 1e-9 * self.Ls and self.explained:
                        ok = True   # reported once per member under the drift signature (compare_state)
                if not ok:
                    self.fail(member.key, "handed-out-altered",
                              "an array handed out earlier (%s) was altered by a later query" % label,
                              [label, float(np.max(np.abs(np.asarray(arr, dtype=float) - val))) if arr.shape == val.shape else "shape"])
                self.handed[i] = (label, arr, np.array(arr, copy=True), live)
            if live is not None:
                now = alias_of(arr, self.shape)
                if now != live:
                    attr = attr_of(live)
                    if attr == "_vertices":
                        self.fail(member.key, "vertices-detached",
                                  "the vertex array handed out earlier is no longer the shape's array", [label, live, now])
                    elif attr in predicted_rebound or attr in CACHE_KEYS:
                        pass   # the model predicts this attribute is re-bound by this query (values checked above)
                    else:
                        self.ctx.disagree("heap.run:attached", self.case,
                                          [member.key, label, live, now, sorted(predicted_rebound)])
                    self.handed[i] = (label, arr, self.handed[i][2], now)

    def run_member(self, m):
        """snapshot -> call -> compare. Returns the canonical answer."""
        ctx, case, shape, cls = self.ctx, self.case, self.shape, self.cls
        core = core_of(shape)
        mover = moves(m, case, cls)
        arrs0, scal0 = snapshot(shape)
        pre = {attr_of(p): v for p, (a, v) in arrs0.items() if attr_of(p) in MODEL_ATTRS}
        pre["_volume"] = float(vars(core).get("_volume", 0.0))
        pre["edges_cached"] = "edges" in vars(core)
        keys0 = set(vars(core).keys())
        tables = centroid_tables(shape, cls) if mover else ([], [])

        # arguments: built here so that they can be snapshotted before the call
        a = member_args(shape, m, case) if m.kind == "method" else []
        arg_bytes = None
        if a:
            arg_bytes = [(x.tobytes(), x.shape, x.dtype.str) if isinstance(x, np.ndarray) else copy.deepcopy(x) for x in a]
        ans, args = call_member_with(shape, m, case, self.tmpdir, a)
        can = canon(ans)

        # ---- arguments bit for bit
        if a:
            for i, x in enumerate(a):
                if isinstance(x, np.ndarray):
                    if (x.tobytes(), x.shape, x.dtype.str) != arg_bytes[i]:
                        self.fail(m.key, "argument-modified", "an array passed by the caller was modified", [i, x.tolist()])
                    p = alias_of(x, shape)
                    if p is not None:
                        self.fail(m.key, "keeps-caller-array", "the shape keeps a reference to the caller's argument", [i, p])
                elif x != arg_bytes[i]:
                    self.fail(m.key, "argument-modified", "an argument passed by the caller was modified", [i, repr(x)])
        self.check_ctor_args(m.key)

        # ---- state: identity of the vertex array, values of everything
        arrs1 = state_arrays(shape)
        self.explained = True
        model = None
        arg0 = a[0] if (a and isinstance(a[0], np.ndarray) and a[0].dtype.kind == "f") else None
        try:
            after = None
            if cls in ("ConvexPolyhedron", "ConvexSpheropolyhedron") and mover:
                after = (np.array(core._vertices, dtype=float), np.array(core._centroid, dtype=float))
                tables = centroid_tables_with_after(tables, after)
            model = run_model(ctx, "F", cls, pre, m, case, arg0, tables)
        except ModelRaise as e:
            ctx.disagree("heap.run", case, [m.key, "model raised " + e.kind])
        rebound_pred = set()
        if model is not None:
            rebound_pred = {MODEL_ATTRS[i] for i, b in enumerate(model["bound"]) if not b}
            self.correspond(m, model, pre, arrs0, arrs1, ans, can, keys0, mover, arg0, a)

        self.last_tables, self.last_pre = tables, pre
        self.compare_state(m, mover, arrs0, scal0, arrs1)
        self.check_handed(m, mover, rebound_pred)

        # ---- returned arrays that alias the state
        if not isinstance(ans, Raised):
            self.check_returned_aliases(m, ans, model)
            self.hand_out(m.key, ans)
        if mover:
            self.moved = True
        return can

    # ---- B: predictions of the heap model against the real object
    def correspond(self, m, model, pre, arrs0, arrs1, ans, can, keys0, mover, arg0, a):
        ctx, case, shape, cls = self.ctx, self.case, self.shape, self.cls
        core = core_of(shape)
        # exception kind (only where the model knows: named getters, to_hoomd, get_face_area, save)
        q = model_query(m, case)
        knows = (q[0] in (2, 3, 4)) or (q[0] == 0 and q[1] != 8) or q[0] == 1
        kind = 0
        if isinstance(ans, Raised):
            kind = {"AttributeError": 1, "NotImplementedError": 2}.get(ans.kind, 3)
        if knows:
            # the model knows which members exist (AttributeError) / are not implemented; other exceptions
            # (ValueError for an argument, RuntimeError of a numerical routine) are outside it
            if (model["err"] in (1, 2)) != (kind in (1, 2)) or (model["err"] in (1, 2) and model["err"] != kind):
                ctx.disagree("heap.run:raises", case, [m.key, model["err"], can[:2]])
        # attribute re-binding
        for i, attr in enumerate(MODEL_ATTRS):
            p0 = [p for p in arrs0 if attr_of(p) == attr and "[" not in p]
            if not p0:
                continue
            p = p0[0]
            still = p in arrs1 and arrs1[p] is arrs0[p][0]
            ctx.count("B:rebinding-compared")
            if bool(model["bound"][i]) != bool(still):
                ctx.disagree("heap.run:rebinding", case, [m.key, attr, "model keeps" if model["bound"][i] else "model re-binds",
                                                          "object keeps" if still else "object re-binds"])
        # caches
        for flag, key in zip(model["caches"], ["_simplex_areas", "_face_centroids", "edges"]):
            have = key in vars(core)
            if bool(flag) != have and not (have and key in keys0 and not flag and key != "edges"):
                ctx.disagree("heap.run:cache", case, [m.key, key, flag, have])
        # exact bits of the original arrays after the query (Float run of the model)
        for idx, attr in ((0, "_vertices"), (1, "_normal")):
            p0 = [p for p in arrs0 if attr_of(p) == attr and "[" not in p]
            if not p0:
                continue
            obj = arrs0[p0[0]][0]
            pred = np.array(model["orig"][idx], dtype=float)
            ctx.count("B:bits-compared" + (":moved" if mover else ""))
            if pred.size != obj.size or not np.array_equal(bits(pred), bits(obj)):
                self.explained = False
                ctx.disagree("heap.run:bits:" + attr, case,
                             [m.key, float(np.max(np.abs(pred - obj.ravel()))) if pred.size == obj.size else "size"])
        if arg0 is not None:
            pred = np.array(model["orig"][3], dtype=float)
            if pred.size != arg0.size or not np.array_equal(bits(pred), bits(arg0)):
                ctx.disagree("heap.run:bits:argument", case, [m.key])
        if cls in ("ConvexPolyhedron", "ConvexSpheropolyhedron") and mover:
            pred = np.array(model["now"][2], dtype=float)
            if pred.size != 3 or not np.array_equal(bits(pred), bits(core._centroid)):
                ctx.disagree("heap.run:bits:_centroid", case, [m.key, pred.tolist(), core._centroid.tolist()])
        # returned arrays: which is the live one, which is new
        if not isinstance(ans, Raised) and q[0] in (0, 1, 3) and not (q[0] == 0 and q[1] == 8):
            got = {}
            for path, arr in arrays_in(ans):
                al = alias_of(arr, shape)
                got[path] = attr_of(al) if al else None
            tagname = {0: "vertices", 1: "normal", 2: "centroid", 3: None, 4: "inertia", 5: None, 6: None}
            for (tag, where), content in zip(model["rets"], model["ret_contents"]):
                pred_attr = WHERE.get(where)
                # locate the corresponding real array
                if q[0] == 0:
                    cands = [v for k, v in got.items() if k == ""]
                elif q[0] == 3:
                    key = {0: ".vertices", 2: ".centroid", 4: ".moment_inertia"}.get(tag)
                    cands = [v for k, v in got.items() if k == key]
                else:
                    cands = None
                if not cands:
                    continue
                ctx.count("B:alias-compared")
                if cands[0] != pred_attr:
                    ctx.disagree("heap.run:alias", case, [m.key, tag, "model: " + str(pred_attr), "object: " + str(cands[0])])
                if q[0] == 3 and tag == 0 and pred_attr is None:
                    real = [arr for k, arr in arrays_in(ans) if k == ".vertices"][0]
                    pred = np.array(content, dtype=float)
                    if pred.size != real.size or not np.array_equal(bits(pred), bits(np.ascontiguousarray(real))):
                        ctx.disagree("heap.run:bits:hoomd-vertices", case, [m.key])

    # ---- C: the state the public getters return
    def compare_state(self, m, mover, arrs0, scal0, arrs1):
        ctx, case, cls = self.ctx, self.case, self.cls
        Ls = self.Ls
        # identity of the vertex array
        for p, (obj, val) in arrs0.items():
            if attr_of(p) == "_vertices" and "[" not in p:
                if p not in arrs1 or arrs1[p] is not obj:
                    self.fail(m.key, "vertices-rebound", "the query re-bound _vertices to another array", [p])
        drift_sig = False
        for p, (obj, val) in arrs0.items():
            attr = attr_of(p)
            now = arrs1.get(p)
            if now is None:
                if attr in CACHE_KEYS:
                    continue
                self.report_state(m, attr, p, "disappeared", None)
                continue
            if now.shape != val.shape:
                self.report_state(m, attr, p, "shape", None)
                continue
            eq_nan = val.dtype.kind in "fc"
            if np.array_equal(now, val, equal_nan=eq_nan):
                continue
            if val.dtype.kind != "f":
                self.report_state(m, attr, p, "changed", None)
                continue
            d = np.abs(now - val)
            if mover:
                if np.all(d <= attr_tol(attr, val, Ls)):
                    continue
                big = np.all(d <= 1e-9 * max(Ls, 1.0)) and self.explained
                if big and attr == "_vertices":
                    # theorem to_hoomd_drift_rounded: every coordinate within |c1| + 11 u S of where it was
                    bound = self.drift_bound(m, val)
                    ctx.count("drift-bound-checked")
                    if bound is None or not np.all(d <= bound):
                        big = False
                        ctx.count("drift-bound-exceeded")
                if big:
                    drift_sig = True
                    continue
            self.report_state(m, attr, p, "changed", float(d.max()))
        _, scal1 = snapshot(self.shape)
        for k, v in scal0.items():
            w = scal1.get(k)
            if w is None or (w != v and not (w != w and v != v)):
                attr = k.split(".")[-1]
                if mover and isinstance(v, float) and w is not None:
                    sc = Ls ** 3 if attr == "_volume" else (Ls ** 2 if attr == "_area" else Ls)
                    if abs(w - v) <= ULPS * EPS * sc:
                        continue
                    if abs(w - v) <= 1e-9 * sc and self.explained:
                        drift_sig = True
                        continue
                self.report_state(m, attr, k, "changed", None if w is None else float(abs(w - v)))
        if drift_sig:
            self.fail(m.key, "drift-beyond-last-digit",
                      "moving the shape to the origin and back leaves vertices / cached observables off by more than "
                      "two roundings (the centroid getter is not exactly translation equivariant in floating point)",
                      {"scale": Ls})

    def drift_bound(self, m, v0):
        """(N,3) array of |c1_k| + 11 u S (Props/C16.lean: to_hoomd_drift_rounded), from the centroid the REAL getter
        returned for the centred shape (c1) and at the start (c0); None when the member is not to_hoomd of a class that
        moves its vertex array (nothing else may drift beyond two roundings)."""
        if m.name != "to_hoomd" or self.cls not in MOVES_VERTS:
            return None
        cen, cenv = self.last_tables
        try:
            if self.cls in ("ConvexPolyhedron", "ConvexSpheropolyhedron"):
                c1 = np.asarray(cenv[0][1], dtype=float)
                c0 = np.asarray(self.last_pre["_centroid"], dtype=float).ravel()
            else:
                c0 = np.asarray(cen[0][1], dtype=float)
                c1 = np.asarray(cen[1][1], dtype=float)
        except (IndexError, KeyError):
            return None
        S = max(float(np.abs(v0).max()), float(np.abs(c0).max()), float(np.abs(c1).max()))
        return np.abs(c1)[None, :] + 11.0 * (EPS / 2.0) * S

    def report_state(self, m, attr, path, what, size):
        if attr in PUBLIC_ATTR:
            self.fail(m.key, "observable-changed:" + PUBLIC_ATTR[attr],
                      "the query changed what the public getter `%s` returns" % PUBLIC_ATTR[attr], [path, what, size])
        elif attr in CACHE_KEYS:
            return
        else:
            self.ctx.disagree("heap.run:private-state", self.case, [m.key, path, what, size])

    def check_returned_aliases(self, m, ans, model):
        """a returned array that shares memory with the state must be one the model (or the documented
        integer structure) says is handed out live."""
        q = model_query(m, self.case)
        predicted_live = set()
        if model is not None:
            predicted_live = {WHERE[w] for _, w in model["rets"] if w in WHERE}
        if m.name in ("normals",):
            predicted_live.add("_equations")
        for path, arr in arrays_in(ans):
            al = alias_of(arr, self.shape)
            if al is None:
                continue
            attr = attr_of(al)
            if attr in LIVE_STRUCTURE or attr in predicted_live:
                continue
            if m.kind == "prop" and m.name in ("polygon", "polyhedron"):
                continue   # the documented accessor of the underlying shape object
            if m.name == "to_json":
                continue   # to_json returns whatever the named getters return (checked getter by getter)
            self.fail(m.key, "returns-live-array",
                      "the answer contains the shape's internal array `%s` (a later change of the shape changes the "
                      "answer the caller holds)" % attr, [path, al])


def call_member_with(shape, m, case, tmpdir, a):
    """like call_member but with the argument list built by the caller."""
    if m.kind != "method":
        return call_member(shape, m, case, tmpdir)
    if a is None:
        return UNCALLABLE, []
    pin_randomness()
    try:
        with warnings.catch_warnings():
            warnings.simplefilter("ignore")
            return getattr(shape, m.name)(*a), a
    except Exception as e:  # noqa: BLE001
        return Raised(exc_kind(e)), a


def centroid_tables_with_after(tables, after):
    cen, cenv = tables
    return cen, list(cenv) + [after]


# --------------------------------------------------------------------------- references on untouched twins

_REF = {}


def reference(case, key, tmpdir):
    """answer of member `key` on a freshly constructed twin."""
    ck = (case["cls"], repr(case["params"]), repr(case.get("json_attrs")), case.get("argseed", 0),
          bool(case.get("via_history")))
    tab = _REF.setdefault(ck, {})
    if key not in tab:
        sh, _ = build_case(case)
        ms, _ = members_of(type(sh))
        m = [x for x in ms if x.key == key][0]
        a = member_args(sh, m, case) if m.kind == "method" else []
        ans, _ = call_member_with(sh, m, case, tmpdir, a)
        tab[key] = canon(ans)
    return tab[key]


def json_attrs_for(cls, params):
    """attribute list for to_json: the public properties of the class that return (no exception)."""
    sh, _ = build(cls, params)
    ms, _ = members_of(type(sh))
    out = []
    for m in ms:
        if m.kind != "prop" or m.name in RANDOM_RETRY:
            continue
        with warnings.catch_warnings():
            warnings.simplefilter("ignore")
            try:
                getattr(sh, m.name)
            except Exception:  # noqa: BLE001
                continue
        out.append(m.name)
    pick = [a for a in ("vertices", "normal", "centroid", "equations", "normals", "face_centroids", "edges",
                        "inertia_tensor", "volume", "area", "radius", "faces") if a in out]
    return pick


# --------------------------------------------------------------------------- a test = a history on one object

def eval_case(ctx, case):
    cls = case["cls"]
    mode = case.get("mode")
    if mode == "order":
        return eval_order_case(ctx, case)
    if mode == "ctor":
        return eval_ctor_case(ctx, case)
    if mode == "hist":
        return eval_hist_case(ctx, case)
    if mode == "bits":
        return eval_bits_case(ctx, case)
    with tempfile.TemporaryDirectory(prefix="c16_") as tmpdir:
        try:
            t = Trial(ctx, case, tmpdir)
        except Exception as e:  # noqa: BLE001
            ctx.fail("%s.__init__:raises" % cls, "constructor raised %s on a valid shape" % exc_kind(e), case, repr(e))
            return
        t.explained = True
        t.check_ctor_args("__init__")
        # the caller first reads every property once and keeps what it got
        for m in t.members:
            if m.kind == "prop" and m.name not in ("inertia_tensor",):
                ans, _ = call_member(t.shape, m, case, tmpdir)
                if not isinstance(ans, Raised):
                    t.hand_out(m.key, ans)
        keyA, keyB = case["A"], case.get("B")
        if keyA not in t.by_key:
            ctx.count("member-missing:" + keyA)
            return
        A = t.by_key[keyA]
        refA = reference(case, keyA, tmpdir)
        a1 = t.run_member(A)
        if a1 == ("uncallable",):
            ctx.count("member-uncallable:%s.%s" % (cls, keyA))
            return
        relA = tol_for(A, False, t, case)
        if not same(a1, refA, relA, t.Ls):
            t.fail(keyA, "answer-depends-on-history", "the answer differs from the same query on an untouched twin "
                   "(after the caller merely read the properties)", [brief(a1), brief(refA)])
        a2 = t.run_member(A)
        rel2 = tol_for(A, moves(A, case, cls), t, case)
        if not same(a2, a1, rel2, t.Ls):
            t.fail(keyA, "not-idempotent", "repeating the query returned a different answer", [brief(a1), brief(a2)])
        if keyB:
            B = t.by_key[keyB]
            refB = reference(case, keyB, tmpdir)
            b1 = t.run_member(B)
            relB = tol_for(B, t.moved, t, case)
            if not same(b1, refB, relB, t.Ls) and B.name in RANDOM_RETRY and t.moved:
                # miniball's pivoting / the random retry may take another path on vertices that moved by an
                # ulp; the value of the bounding ball is property C13's business
                ctx.count("random-retry-differs-after-move")
            elif not same(b1, refB, relB, t.Ls):
                t.fail(keyA, "changes-answer-of:" + keyB,
                       "after this query another member answers differently than on an untouched twin",
                       [brief(b1), brief(refB)])
        else:
            # all cheap public observables against the untouched twin
            read_before = []
            for m in t.members:
                if m.kind != "prop":
                    continue
                ref = reference(case, m.key, tmpdir)
                ans, _ = call_member(t.shape, m, case, tmpdir)
                rel = tol_for(m, t.moved, t, case)
                if not same(canon(ans), ref, rel, t.Ls) and m.name in RANDOM_RETRY and t.moved:
                    ctx.count("random-retry-differs-after-move")
                elif not same(canon(ans), ref, rel, t.Ls):
                    # who did it: A, or a property read earlier in this very sweep?  (first one that reproduces alone)
                    who = blame(case, [A] + read_before, m, ref, max(rel, 1e-9 if moves(A, case, cls) else 0.0), tmpdir)
                    if who is None or who.key == keyA:
                        t.fail(keyA, "observable-changed:" + m.key,
                               "after this query the public observable differs from the untouched twin",
                               [brief(canon(ans)), brief(ref)])
                    else:
                        t.fail(who.key, "changes-answer-of:" + m.key,
                               "after reading this member another member answers differently than on an untouched twin "
                               "(found while sweeping the observables after `%s`)" % keyA, [brief(canon(ans)), brief(ref)])
                read_before.append(m)
        # Q: the spec's answer for a move-and-move-back (exact rationals, equivariant centroid): nothing changed
        if moves(A, case, cls) and case.get("q_check"):
            spec_check(ctx, t, A, case)


def blame(case, candidates, m, ref, rel, tmpdir):
    """the first candidate member after which (alone, on a fresh object) member `m` no longer answers `ref`"""
    for p in candidates:
        try:
            sh, _ = build_case(case)
            if light_call(sh, p, case, tmpdir) == ("uncallable",):
                continue
            got = light_call(sh, m, case, tmpdir)
        except Exception:  # noqa: BLE001
            continue
        if not same(got, ref, rel, scale_of(sh)):
            return p
    return None


def tol_for(m, after_move, t, case):
    if m.name in RANDOM_RETRY:
        return 1e-6
    if after_move or moves(m, case, t.cls):
        return 1e-9
    return 0.0


def spec_check(ctx, t, A, case):
    cls = t.cls
    sh, _ = build(cls, case["params"])
    core = core_of(sh)
    arrs0, _ = snapshot(sh)
    pre = {attr_of(p): v for p, (a, v) in arrs0.items() if attr_of(p) in MODEL_ATTRS}
    pre["_volume"] = float(vars(core).get("_volume", 0.0))
    v0 = np.array(core._vertices, dtype=float)
    with warnings.catch_warnings():
        warnings.simplefilter("ignore")
        c0 = np.array(core.centroid, dtype=float)
    tbl = [(v0, c0)]
    try:
        r = run_model(ctx, "Q", cls, pre, A, case, None, (tbl, tbl), reps=2)
    except ModelRaise as e:
        ctx.disagree("heap.run(Q)", case, [A.key, e.kind])
        return
    ctx.count("spec_Q_runs")
    spec_v = np.array([float(x) for x in r["orig"][0]])
    if spec_v.size != v0.size or not np.array_equal(spec_v, v0.ravel()):
        ctx.disagree("heap.run(Q):spec-moves", case, [A.key])
        return
    call_member_with(sh, A, case, t.tmpdir, member_args(sh, A, case) if A.kind == "method" else [])
    d = float(np.max(np.abs(core._vertices.ravel() - spec_v)))
    if d > 1e-9 * t.Ls:
        ctx.fail("%s.%s:observable-changed:vertices" % (cls, A.key), "vertices differ from the spec (unchanged)", case, d)



# --------------------------------------------------------------------------- light observation (order / ctor / hist sweeps)

def light_members(C):
    """the members examined in ALL ordered pairs: everything found by reflection except the 14 file exports
    (those are covered by the fully observed histories of eval_case)"""
    ms, _ = members_of(C)
    return [m for m in ms if m.kind not in ("save", "io")]


def light_state(shape):
    """values of the state-bearing arrays and floats (copies), keyed by attribute path"""
    arrs, scal = snapshot(shape)
    return {p: v for p, (a, v) in arrs.items() if attr_of(p) not in CACHE_KEYS}, scal


def state_diff(st0, st1, rel, Ls):
    """first state path whose value differs (beyond rel * scale) or None"""
    a0, s0 = st0
    a1, s1 = st1
    for p, v in a0.items():
        w = a1.get(p)
        if w is None or w.shape != v.shape:
            return p, "shape"
        if v.dtype.kind != "f":
            if not np.array_equal(v, w):
                return p, "changed"
            continue
        if np.array_equal(v, w, equal_nan=True):
            continue
        if rel == 0:
            return p, float(np.nanmax(np.abs(v - w)))
        attr = attr_of(p)
        sc = 1.0 if attr in ("_normal",) else Ls
        tol = np.full(v.shape, rel * max(sc, 1e-300))
        if attr in ("_equations", "_simplex_equations"):
            tol[..., :3] = rel
        if not np.all(np.abs(v - w) <= tol):
            return p, float(np.nanmax(np.abs(v - w)))
    for k, v in s0.items():
        w = s1.get(k)
        if w is None:
            return k, "missing"
        if w == v or (w != w and v != v):
            continue
        if rel == 0 or not isinstance(v, float):
            return k, float(abs(w - v)) if isinstance(v, (int, float)) else "changed"
        attr = k.split(".")[-1]
        sc = Ls ** 3 if attr == "_volume" else (Ls ** 2 if attr == "_area" else Ls)
        if abs(w - v) > rel * sc:
            return k, float(abs(w - v))
    return None


def report_light(ctx, cls, member, dfr, case, what):
    """a changed state path: a violation when a public getter returns that attribute as is; private state (a cache the
    model does not know) is a model/implementation disagreement, as in Trial.report_state"""
    attr = attr_of(dfr[0].split(".")[-1] if "." in dfr[0] else dfr[0])
    if attr in PUBLIC_ATTR:
        ctx.fail("%s.%s:observable-changed:%s" % (cls, member, PUBLIC_ATTR[attr]), what, case, [member] + list(dfr))
    else:
        ctx.disagree("heap.run:private-state", case, [member] + list(dfr))


def light_call(shape, m, case, tmpdir):
    a = member_args(shape, m, case) if m.kind == "method" else []
    ans, _ = call_member_with(shape, m, case, tmpdir, a)
    return canon(ans)


# --------------------------------------------------------------------------- (order) all ordered pairs, light

def eval_order_case(ctx, case, tmpdir=None):
    """case: cls, params, A (asked first), B (asked second), mode 'order'.  B's answer right after A must be B's
    answer on a fresh twin (bit for bit unless A moved the shape and moved it back: 1e-9), the state must be the fresh
    twin's, the constructor's argument arrays must be untouched."""
    own = tmpdir is None
    if own:
        tmpdir = tempfile.mkdtemp(prefix="c16_")
    try:
        cls = case["cls"]
        sh, ctor = build_case(case)
        ctor_bytes = {k: a.tobytes() for k, a in ctor.items()}
        ms = {m.key: m for m in light_members(type(sh))}
        if case["A"] not in ms or case["B"] not in ms:
            ctx.count("member-missing:%s|%s" % (case["A"], case["B"]))
            return
        A, B = ms[case["A"]], ms[case["B"]]
        Ls = scale_of(sh)
        st0 = light_state(sh)
        def untouched(who, before):
            """state and constructor arrays around ONE call: the member that did it gets the blame"""
            now = light_state(sh)
            dfr = state_diff(before, now, 1e-9 if moves(who, case, cls) else 0.0, Ls)
            if dfr is not None:
                report_light(ctx, cls, who.key, dfr, case, "the query changed the state")
            for k, arr in ctor.items():
                if arr.tobytes() != ctor_bytes[k]:
                    ctx.fail("%s.%s:argument-modified:%s" % (cls, who.key, k),
                             "the caller's %s array passed to the constructor was modified by a query" % k, case,
                             [k, A.key, B.key])
                    ctor_bytes[k] = arr.tobytes()
            return now

        a = light_call(sh, A, case, tmpdir)
        if a == ("uncallable",):
            return
        st1 = untouched(A, st0)
        b = light_call(sh, B, case, tmpdir)
        if b == ("uncallable",):
            return
        untouched(B, st1)
        moved = moves(A, case, cls)
        rel = 1e-6 if (B.name in RANDOM_RETRY and moved) else (1e-9 if moved else 0.0)
        refB = reference(case, B.key, tmpdir)
        if not same(b, refB, rel, Ls):
            if B.name in RANDOM_RETRY and moved:
                ctx.count("random-retry-differs-after-move")
            else:
                ctx.fail("%s.%s:changes-answer-of:%s" % (cls, A.key, B.key),
                         "asked right after this query another member answers differently than on a fresh twin",
                         case, [brief(b), brief(refB)])
    finally:
        if own:
            import shutil
            shutil.rmtree(tmpdir, ignore_errors=True)


HOT = ("to_hoomd", "inertia_tensor", "face_centroids", "get_face_area", "get_face_area[ids]", "edges", "to_json",
       "vertices", "centroid", "planar_moments_inertia", "polar_moment_inertia", "volume", "area", "is_inside",
       "minimal_bounding_sphere", "minimal_bounding_circle", "gsd_shape_spec", "normal", "equations")


def order_sweep(ctx, cls, base, tmpdir, first=None):
    ms = light_members(getattr(shapes_mod(), cls))
    keys = [m.key for m in ms]
    for a in (keys if first is None else [k for k in keys if k in first]):
        for b in keys:
            case = dict(base, mode="order", A=a, B=b)
            ctx.count("order-pair")
            ctx.case(case)
            eval_order_case(ctx, case, tmpdir)


# --------------------------------------------------------------------------- (ctor) input containers, caller-owned arrays

CONTAINERS = ["list", "tuple", "f64C", "f64F", "view", "f32", "int"]


def containerize(a, kind):
    """the same numbers in another container; 'f32' / 'int' need values that survive the conversion"""
    a = np.asarray(a, dtype=float)
    if kind == "list":
        return a.tolist()
    if kind == "tuple":
        return tuple(tuple(r) for r in a.tolist()) if a.ndim == 2 else tuple(a.tolist())
    if kind == "f64C":
        return np.ascontiguousarray(a.copy())
    if kind == "f64F":
        return np.asfortranarray(a.copy())
    if kind == "view":
        if a.ndim == 2:
            big = np.full((2 * a.shape[0] + 1, a.shape[1] + 2), 7.5)
            big[1::2, 1:1 + a.shape[1]] = a
            return big[1::2, 1:1 + a.shape[1]]
        big = np.full(2 * a.size + 1, 7.5)
        big[1::2] = a
        return big[1::2]
    if kind == "f32":
        return a.astype(np.float32)
    if kind == "int":
        return np.rint(a).astype(np.int64)
    raise ValueError(kind)


def lattice_params(rng, cls):
    """integer-valued off-origin shapes (exact in float32 and int64)"""
    o = [int(x) for x in rng.integers(5, 40, size=3) * rng.choice([-1, 1], size=3)]
    if cls in ("Circle", "Sphere"):
        return {"radius": 2.0, "center": [float(o[0]), float(o[1]), float(o[2])]}
    if cls == "Ellipse":
        return {"a": 3.0, "b": 2.0, "center": [float(x) for x in o]}
    if cls == "Ellipsoid":
        return {"a": 3.0, "b": 2.0, "c": 1.0, "center": [float(x) for x in o]}
    if cls in ("Polygon", "ConvexPolygon", "ConvexSpheropolygon"):
        w, h = int(rng.integers(2, 7)), int(rng.integers(1, 5))
        if cls == "Polygon":   # an L
            p2 = [[0, 0], [w + 2, 0], [w + 2, 1], [1, 1], [1, h + 2], [0, h + 2]]
        else:
            p2 = [[0, 0], [w, 0], [w + 1, h], [1, h + 1]]
        v = [[float(x + o[0]), float(y + o[1]), 0.0] for x, y in p2]
        out = {"vertices": v, "normal": [0.0, 0.0, 2.0]}
        if cls == "ConvexSpheropolygon":
            out["radius"] = 1.0
        return out
    a, b, c = (int(x) for x in rng.integers(1, 5, size=3))
    v = [[float(o[0] + i * a), float(o[1] + j * b), float(o[2] + k * c)] for i in (0, 1) for j in (0, 1) for k in (0, 1)]
    out = {"vertices": v}
    if cls == "Polyhedron":
        cp = shapes_mod().ConvexPolyhedron(np.array(v))
        out["vertices"] = cp.vertices.tolist()
        out["faces"] = [[int(i) for i in f] for f in cp.faces]
    if cls == "ConvexSpheropolyhedron":
        out["radius"] = 1.0
    return out


def caller_arrays(given):
    """[(name, ndarray)] the caller owns (face index arrays one by one)"""
    out = []
    for k, v in given.items():
        if isinstance(v, np.ndarray):
            out.append((k, v))
        elif k == "faces":
            out += [("faces[%d]" % i, f) for i, f in enumerate(v)]
    return out


def blob(x):
    return (x.tobytes(), x.shape, x.dtype.str, x.strides) if isinstance(x, np.ndarray) else copy.deepcopy(x)


def ctor_model(ctx, case, sh, seen, two_cols, queries):
    """B: the heap model's constructor (Model/Heap.lean `construct`) on the same input, followed by the same queries:
    no attribute is bound to a caller's array, the caller's arrays keep their bits, `_vertices` right after the
    constructor holds the input (padded with zeros for (N,2) input, reordered for the convex classes)."""
    cls = case["cls"]
    core = core_of(sh)
    vin = seen.get("vertices", np.zeros((0, 3)))
    perm = []
    v_now = np.array(vars(core).get("_vertices", np.zeros((0, 3))), dtype=float)
    if cls in ("ConvexPolygon", "ConvexSpheropolygon"):
        vin3 = np.hstack([vin, np.zeros((len(vin), 1))]) if two_cols else vin
        for row in v_now:
            hit = np.where(np.all(vin3 == row, axis=1))[0]
            if len(hit) != 1:
                ctx.disagree("heap.ctor:rows", case, ["row of _vertices not found among the input rows", row.tolist()])
                return
            perm.append(int(hit[0]))
    cn = np.array(vars(core).get("_normal", []), dtype=float)
    req = [CLS_CODE[cls], 1 if two_cols else 0, flat(vin), 1 if "normal" in seen else 0, flat(seen.get("normal", [])),
           flat(seen.get("center", [])), flat(cn), L(perm), flat(vars(core).get("_equations", [])),
           flat(vars(core).get("_simplex_equations", [])), flat(vars(core).get("_centroid", [])),
           float(vars(core).get("_volume", 0.0))]
    # the queries: a length-prefixed list, each query as in heap.run
    req += [len(queries)] + [t for q in queries for t in q]
    try:
        r = ctx.driver.F("heap.ctor", *req)
    except ModelRaise as e:
        ctx.disagree("heap.ctor", case, ["model raised " + e.kind])
        return
    it = iter(r)
    det0 = [next(it) for _ in range(3)]
    det1 = [next(it) for _ in range(3)]

    def rd_list():
        k = next(it)
        return [next(it) for _ in range(k)]

    after = [rd_list() for _ in range(3)]
    ctor_now = [rd_list() for _ in range(3)]
    ctx.count("B:ctor-compared")
    if det0 != [1, 1, 1] or det1 != [1, 1, 1]:
        ctx.disagree("heap.ctor:detached", case, [det0, det1])
    for idx, k in ((0, "vertices"), (1, "normal"), (2, "center")):
        if k in seen:
            if not np.array_equal(bits(np.array(after[idx], dtype=float)), bits(seen[k])):
                ctx.disagree("heap.ctor:caller-bits", case, [k])
    if v_now.size:
        if not np.array_equal(bits(np.array(ctor_now[0], dtype=float)), bits(v_now)):
            ctx.disagree("heap.ctor:_vertices", case, [cls, two_cols])
    if "normal" in seen and cn.size:
        if not ctx.close_enough(np.array(ctor_now[1], dtype=float), cn, 1.0):
            ctx.disagree("heap.ctor:_normal", case, [ctor_now[1], cn.tolist()])
    if "center" in seen:
        if not np.array_equal(bits(np.array(ctor_now[2], dtype=float)), bits(np.asarray(vars(sh)["_centroid"], dtype=float))):
            ctx.disagree("heap.ctor:_centroid", case, [cls])


def eval_ctor_case(ctx, case, tmpdir=None):
    """case: cls, params, container, two_cols, members (order of the queries), mode 'ctor'."""
    own = tmpdir is None
    if own:
        tmpdir = tempfile.mkdtemp(prefix="c16_")
    try:
        cls, cont, two = case["cls"], case["container"], bool(case.get("two_cols"))
        # the caller's objects, snapshotted BEFORE the constructor sees them
        given0 = {}
        for k in ("vertices", "normal", "center"):
            if k in case["params"]:
                a = np.array(case["params"][k], dtype=float)
                if k == "vertices" and two:
                    a = a[:, :2]
                given0[k] = containerize(a, cont)
        pre_given = {k: blob(v) for k, v in given0.items()}
        try:
            sh, given, seen = build_with(cls, case["params"], given0)
        except Exception as e:  # noqa: BLE001
            # which inputs a constructor accepts is property C15's business: counted, not judged here
            ctx.count("ctor-rejected:%s:%s:%s" % (cls, cont, exc_kind(e)))
            return
        ctx.count("ctor:%s:%s%s" % (cls, cont, ":Nx2" if two else ""))
        # ---- the constructor itself: arguments unchanged, nothing of the caller's kept
        for k, v in given0.items():
            if blob(v) != pre_given[k]:
                ctx.fail("%s.__init__:argument-modified:%s" % (cls, k),
                         "the constructor modified the caller's %s (%s)" % (k, cont), case, [k, cont])
        owned = caller_arrays(given)
        for k, arr in owned:
            p = alias_of(arr, sh)
            if p is not None:
                if k.startswith("faces"):
                    ctx.count("observed:Polyhedron-keeps-caller-face-arrays")
                else:
                    ctx.fail("%s.__init__:keeps-caller-array:%s" % (cls, k),
                             "the shape keeps the caller's %s array (%s) instead of a copy" % (k, cont), case, [k, cont, p])
        snaps = {k: blob(arr) for k, arr in owned}
        lists = {k: copy.deepcopy(v) for k, v in given.items() if not isinstance(v, np.ndarray) and k != "faces"}
        ms = {m.key: m for m in light_members(type(sh))}
        Ls = scale_of(sh)
        st0 = light_state(sh)
        moved = False
        model_queries = []
        for key in case["members"]:
            m = ms.get(key)
            if m is None:
                continue
            ans = light_call(sh, m, case, tmpdir)
            if ans == ("uncallable",):
                continue
            if model_query(m, case)[0] != 5:
                model_queries.append(model_query(m, case))
            moved = moved or moves(m, case, cls)
            for k, arr in owned:
                if blob(arr) != snaps[k]:
                    ctx.fail("%s.%s:argument-modified:%s" % (cls, m.key, k.split("[")[0]),
                             "a query modified the caller's %s array that was passed to the constructor (%s)" % (k, cont),
                             case, [k, cont, m.key])
                    snaps[k] = blob(arr)
                if not k.startswith("faces") and alias_of(arr, sh) is not None:
                    ctx.fail("%s.%s:keeps-caller-array:%s" % (cls, m.key, k),
                             "after this query the shape shares memory with the caller's %s array" % k, case, [k, cont])
            for k, v in lists.items():
                if given[k] != v:
                    ctx.fail("%s.%s:argument-modified:%s" % (cls, m.key, k),
                             "a query modified the caller's %s (%s)" % (k, cont), case, [k, cont, m.key])
                    lists[k] = copy.deepcopy(given[k])
        dfr = state_diff(st0, light_state(sh), 1e-9 if moved else 0.0, Ls)
        if dfr is not None:
            report_light(ctx, cls, "queries", dfr, case,
                         "after the sequence of queries the state differs from the freshly constructed one")
        # B: the model's constructor on what the constructor saw, read against a FRESH object (this one may have drifted)
        fresh = build_with(cls, case["params"], {k: containerize(seen[k], "f64C") for k in seen})[0]
        ctor_model(ctx, case, fresh, seen, two, model_queries)
    finally:
        if own:
            import shutil
            shutil.rmtree(tmpdir, ignore_errors=True)


def build_with(cls, params, given):
    """construct with the caller's objects `given` (vertices / normal / center)"""
    S = shapes_mod()
    C = getattr(S, cls)
    given = dict(given)
    seen = {k: np.array(v, dtype=np.float64) for k, v in given.items()}
    if cls == "Polyhedron":
        given["faces"] = [np.array(f, dtype=np.int64) for f in params["faces"]]
    if cls in ("Circle", "Sphere"):
        sh = C(params["radius"], given["center"])
    elif cls == "Ellipse":
        sh = C(params["a"], params["b"], given["center"])
    elif cls == "Ellipsoid":
        sh = C(params["a"], params["b"], params["c"], given["center"])
    elif cls in ("Polygon", "ConvexPolygon"):
        sh = C(given["vertices"], normal=given.get("normal"))
    elif cls == "ConvexSpheropolygon":
        sh = C(given["vertices"], params["radius"], normal=given.get("normal"))
    elif cls == "Polyhedron":
        sh = C(given["vertices"], given["faces"])
    elif cls == "ConvexPolyhedron":
        sh = C(given["vertices"])
    else:
        sh = C(given["vertices"], params["radius"])
    return sh, given, seen


def ctor_member_order(ctx, cls, key, n_extra):
    """the movers first candidates + a sample of the other members, in an order drawn per case"""
    ms = light_members(getattr(shapes_mod(), cls))
    keys = [m.key for m in ms]
    must = [k for k in ("to_hoomd", "inertia_tensor", "to_json", "is_inside", "compute_form_factor_amplitude",
                        "distance_to_surface", "gsd_shape_spec", "repr", "vertices", "centroid", "get_face_area[ids]",
                        "face_centroids", "minimal_centered_bounding_sphere", "minimal_centered_bounding_circle")
            if k in keys]
    rest = [k for k in keys if k not in must]
    _, order = read_shuffled({k: (lambda: None) for k in rest}, [cls, key, "rest"])
    pick = must + (order if n_extra is None else order[:n_extra])
    _, order2 = read_shuffled({k: (lambda: None) for k in pick}, [cls, key, "order"])
    return order2


def ctor_sweep(ctx, cls, generic, tmpdir):
    lat = lattice_params(ctx.rng, cls)
    n_extra = None if ctx.tier == "thorough" else 6
    plans = [(generic, c, False, False) for c in ("list", "tuple", "f64C", "f64F", "view")]
    plans += [(lat, c, False, True) for c in ("f64C", "f32", "int", "list")]
    if cls in ("Polygon", "ConvexPolygon", "ConvexSpheropolygon"):
        flat2 = gen_params(ctx.rng, cls, force_plane="xy")
        flat2.pop("normal", None)
        plans += [(flat2, c, True, False) for c in ("list", "f64C", "view")]
        # a normal that is ALREADY a unit float64 vector (nothing to normalise: must still be copied)
        unit = dict(generic)
        if "normal" in unit:
            nn = np.array(unit["normal"], dtype=float)
        else:
            vv = np.array(unit["vertices"], dtype=float)
            nn = np.cross(vv[2] - vv[1], vv[0] - vv[1])
            if cls == "Polygon":
                sh0, _ = build(cls, unit)
                nn = np.array(sh0.normal, dtype=float)
        unit["normal"] = (nn / np.linalg.norm(nn)).tolist()
        plans += [(unit, c, False, False) for c in ("f64C", "view")]
        zed = dict(flat2, vertices=[r + [0.0] for r in np.array(flat2["vertices"])[:, :2].tolist()], normal=[0.0, 0.0, 1.0])
        plans += [(zed, "f64C", False, False)]
        if cls == "Polygon":
            down = dict(zed, vertices=zed["vertices"][::-1], normal=[0.0, 0.0, -1.0])
            plans += [(down, "f64C", False, False)]
        plans += [(dict(lat, **{}), c, True, True) for c in ("int", "f32")]
    for params, cont, two, lattice in plans:
        case = {"cls": cls, "params": params, "container": cont, "two_cols": two, "lattice": lattice, "mode": "ctor",
                "argseed": 5, "json_attrs": ["vertices", "centroid", "inertia_tensor"] if cls in VERTEX_CLASSES[:2] + VERTEX_CLASSES[3:5]
                else ["gsd_shape_spec"]}
        if two and "normal" in params and lattice:
            case["params"] = {k: v for k, v in params.items() if k != "normal"}
        case["members"] = ctor_member_order(ctx, cls, [cont, two, lattice], n_extra)
        ctx.count("ctor-case")
        ctx.case(case)
        eval_ctor_case(ctx, case, tmpdir)


# --------------------------------------------------------------------------- (bits) many placements, every member, bitwise state

def scaled_params(params, k):
    """the same shape scaled by k about the origin (vertices / centre / radii / axes)"""
    out = dict(params)
    for key in ("vertices", "center"):
        if key in out:
            out[key] = (np.array(out[key], dtype=float) * k).tolist()
    for key in ("radius", "a", "b", "c"):
        if key in out:
            out[key] = float(out[key]) * k
    return out


def eval_bits_case(ctx, case, tmpdir=None):
    """case: cls, params, members (order), mode 'bits'.  ONE object; after every member the state must be bit for
    bit what it was before that member (members that move the shape and move it back: 1e-9 of the scale), the
    constructor's arrays must keep their bytes."""
    own = tmpdir is None
    if own:
        tmpdir = tempfile.mkdtemp(prefix="c16_")
    try:
        cls = case["cls"]
        try:
            sh, ctor = build_case(case)
        except Exception as e:  # noqa: BLE001
            ctx.count("bits:constructor-raised:" + exc_kind(e))
            return
        ctor_bytes = {k: a.tobytes() for k, a in ctor.items()}
        ms = {m.key: m for m in light_members(type(sh))}
        Ls = scale_of(sh)
        for key in case["members"]:
            m = ms.get(key)
            if m is None:
                continue
            st0 = light_state(sh)
            a = member_args(sh, m, case) if m.kind == "method" else []
            snap = [blob(x) for x in a] if a else []
            call_member_with(sh, m, case, tmpdir, a)
            mv = moves(m, case, cls)
            dfr = state_diff(st0, light_state(sh), 1e-9 if mv else 0.0, Ls)
            if dfr is not None:
                report_light(ctx, cls, m.key, dfr, case, "the query changed the state (bitwise comparison around the call)")
            for i, x in enumerate(a or []):
                if blob(x) != snap[i]:
                    ctx.fail("%s.%s:argument-modified" % (cls, m.key), "an argument passed by the caller was modified",
                             case, [m.key, i])
            for k, arr in ctor.items():
                if arr.tobytes() != ctor_bytes[k]:
                    ctx.fail("%s.%s:argument-modified:%s" % (cls, m.key, k),
                             "the caller's %s array passed to the constructor was modified by a query" % k, case, [k, m.key])
                    ctor_bytes[k] = arr.tobytes()
    finally:
        if own:
            import shutil
            shutil.rmtree(tmpdir, ignore_errors=True)


def bits_sweep(ctx, cls, tmpdir):
    keys = [m.key for m in light_members(getattr(shapes_mod(), cls))]
    # the polyhedra cost 10-100 ms per shape, everything else about 10 ms
    n = ctx.budget(24, 120) * (1 if cls in ("Polyhedron", "ConvexPolyhedron", "ConvexSpheropolyhedron", "Polygon") else 2)
    for i in range(n):
        plane = [None, "neartilt", "random", "xy"][i % 4]
        params = gen_params(ctx.rng, cls, force_plane=plane)
        if i % 3 == 2:
            k = float(10 ** ctx.rng.uniform(-3, 3))
            params = scaled_params(params, k)
            ctx.count("bits:scaled")
        case = {"cls": cls, "params": params, "argseed": int(ctx.rng.integers(1 << 30)), "mode": "bits",
                "json_attrs": ["vertices", "centroid", "inertia_tensor"] if cls in MOVES_VERTS[:4] else ["gsd_shape_spec"]}
        _, order = read_shuffled({k: (lambda: None) for k in keys}, [cls, i, case["argseed"]])
        case["members"] = order
        ctx.count("bits-case")
        ctx.case(case)
        eval_bits_case(ctx, case, tmpdir)


# --------------------------------------------------------------------------- (hist) shapes reached through mutators

def build_case(case):
    """the shape of a case: built directly, or (case['via_history']) reached through mutators from a scaled and
    shifted copy (history.via_history; deterministic per case).  Returns (shape, constructor arrays to watch)."""
    sh, args = build(case["cls"], case["params"])
    if case.get("via_history"):
        pin_randomness()
        o, how = history.via_history(sh, history.rng_for([case["cls"], case["params"].get("vertices", case["params"].get("center"))]))
        if how.startswith("via"):
            return o, {}
    return sh, args


def eval_hist_case(ctx, case, tmpdir=None):
    """case: cls, params, via_history, A, mode 'hist': on an object reached through mutators, member A and then every
    public property must answer as on an equally reached, untouched twin; the state must be the twin's."""
    own = tmpdir is None
    if own:
        tmpdir = tempfile.mkdtemp(prefix="c16_")
    try:
        cls = case["cls"]
        sh, _ = build_case(case)
        twin, _ = build_case(case)
        st_t = light_state(twin)
        st0 = light_state(sh)
        if state_diff(st_t, st0, 0.0, 1.0) is not None:
            ctx.count("hist:not-reproducible")
            return
        ms = {m.key: m for m in light_members(type(sh))}
        A = ms.get(case["A"])
        if A is None:
            return
        Ls = scale_of(sh)
        a1 = light_call(sh, A, case, tmpdir)
        if a1 == ("uncallable",):
            return
        moved = moves(A, case, cls)
        a2 = light_call(sh, A, case, tmpdir)
        if not same(a2, a1, 1e-9 if moved else 0.0, Ls) and not (A.name in RANDOM_RETRY and moved):
            ctx.fail("%s.%s:not-idempotent" % (cls, A.key), "repeating the query returned a different answer (object "
                     "reached through mutators)", case, [brief(a1), brief(a2)])
        rel = 1e-9 if moved else 0.0
        dfr = state_diff(st0, light_state(sh), rel, Ls)
        if dfr is not None:
            report_light(ctx, cls, A.key, dfr, case, "the query changed the state of an object reached through mutators")
        thunks = {m.key: (lambda m=m: light_call(sh, m, case, tmpdir)) for m in ms.values() if m.kind == "prop"}
        got, _ = read_shuffled(thunks, [cls, case["A"], "hist"])
        for k, v in got.items():
            ref = light_call(twin, ms[k], case, tmpdir)
            r = 1e-6 if (ms[k].name in RANDOM_RETRY) else rel
            if not same(v, ref, r, Ls):
                if ms[k].name in RANDOM_RETRY and moved:
                    ctx.count("random-retry-differs-after-move")
                    continue
                ctx.fail("%s.%s:changes-answer-of:%s" % (cls, A.key, k),
                         "after this query (object reached through mutators) another member answers differently than on "
                         "an untouched twin", case, [brief(v), brief(ref)])
    finally:
        if own:
            import shutil
            shutil.rmtree(tmpdir, ignore_errors=True)


def hist_sweep(ctx, cls, base, tmpdir):
    case0 = dict(base, via_history=True, mode="hist")
    sh, _ = build(cls, base["params"])
    pin_randomness()
    _, how = history.via_history(sh, history.rng_for([cls, base["params"].get("vertices", base["params"].get("center"))]))
    ctx.count("hist:" + how.split(":")[0] + (":" + how.split(":", 1)[1] if how.startswith("direct") else ""))
    if not how.startswith("via"):
        return
    keys = [m.key for m in light_members(getattr(shapes_mod(), cls))]
    hot = [k for k in keys if k in ("to_hoomd", "inertia_tensor", "face_centroids", "get_face_area", "edges", "to_json",
                                   "vertices", "centroid", "planar_moments_inertia", "polar_moment_inertia", "volume",
                                   "minimal_bounding_sphere", "minimal_bounding_circle", "is_inside")]
    if ctx.tier == "thorough":
        pick = keys
    else:
        _, order = read_shuffled({k: (lambda: None) for k in keys if k not in hot}, [cls, "hist-pick"])
        pick = hot + order[:4]
    for k in pick:
        case = dict(case0, A=k)
        ctx.count("hist-case")
        ctx.case(case)
        eval_hist_case(ctx, case, tmpdir)


# --------------------------------------------------------------------------- generation

def make_shape_case(rng, cls, ctx):
    params = gen_params(rng, cls)
    case = {"cls": cls, "params": params, "argseed": int(rng.integers(1 << 30))}
    case["json_attrs"] = json_attrs_for(cls, params)
    return case


def run(ctx):
    import time
    S = shapes_mod()
    n_shapes = ctx.budget(1, 3)
    skipped_all = set()
    cpu = {"observed-histories": 0.0, "order": 0.0, "ctor": 0.0, "bits": 0.0, "hist": 0.0}
    tick = [time.process_time()]

    def lap(name):
        now = time.process_time()
        cpu[name] += now - tick[0]
        tick[0] = now
    for cls in CLS_ORDER:
        C = getattr(S, cls)
        ms, skipped = members_of(C)
        skipped_all |= set(skipped)
        keys = [m.key for m in ms]
        ctx.count("members:" + cls, len(keys))
        for si in range(n_shapes):
            base = make_shape_case(ctx.rng, cls, ctx)
            ctx.count("shape:" + cls)
            # every member alone (with the full sweep of public observables afterwards)
            for k in keys:
                case = dict(base, A=k, B=None, q_check=True)
                ctx.case(case)
                eval_case(ctx, case)
            # ordered pairs
            if ctx.tier == "thorough" and si == 0:
                pairs = [(a, b) for a in keys for b in keys]
            else:
                n = len(keys)
                shifts = [1, 7] if ctx.widen == 1 else list(range(1, min(n, 12)))
                pairs = [(keys[i], keys[(i + s) % n]) for s in shifts for i in range(n)]
                # the members that touch state, against everything
                hot = [k for k in keys if k in ("to_hoomd", "inertia_tensor", "face_centroids", "get_face_area", "edges",
                                               "save:STL", "io.to_stl", "save:OFF", "to_json", "vertices")]
                probes = ["vertices", "centroid", "inertia_tensor", "to_hoomd", "repr", "volume", "area"]
                pairs += [(h, p) for h in hot for p in probes if p in keys]
            for a, b in pairs:
                case = dict(base, A=a, B=b)
                ctx.count("pair")
                ctx.case(case)
                eval_case(ctx, case)
        lap("observed-histories")
        # ---- deepening round: all ordered pairs (light), input containers, objects reached through mutators
        with tempfile.TemporaryDirectory(prefix="c16_") as tmpdir:
            planes = ["neartilt", "random"] if (ctx.seed + CLS_CODE[cls]) % 2 == 0 else ["random", "neartilt"]
            n_order = 1 if (ctx.tier == "quick" and ctx.widen == 1) else 2
            for oi in range(n_order):
                # (the general Polyhedron's members cost ~face count x 1 ms each: a small solid for the 1600 pairs)
                ob = {"cls": cls, "params": gen_params(ctx.rng, cls, force_plane=planes[oi],
                                                       max_verts=8 if cls == "Polyhedron" else 14),
                      "argseed": int(ctx.rng.integers(1 << 30))}
                ob["json_attrs"] = json_attrs_for(cls, ob["params"])
                ctx.count("order-shape:%s:%s" % (cls, planes[oi] if cls in ("Polygon", "ConvexPolygon") else "placed"))
                order_sweep(ctx, cls, ob, tmpdir)
            if ctx.tier == "thorough":
                ob = dict(make_shape_case(ctx.rng, cls, ctx), via_history=True)
                ctx.count("order-shape:%s:via-history" % cls)
                order_sweep(ctx, cls, ob, tmpdir, first=HOT[:7])
            lap("order")
            ctor_sweep(ctx, cls, gen_params(ctx.rng, cls), tmpdir)
            lap("ctor")
            bits_sweep(ctx, cls, tmpdir)
            lap("bits")
            hist_sweep(ctx, cls, make_shape_case(ctx.rng, cls, ctx), tmpdir)
            lap("hist")
        _REF.clear()
    ctx.extra["skipped_members"] = {k: SKIP[k] for k in sorted(skipped_all)}
    ctx.extra["section_cpu_s"] = {k: round(v, 1) for k, v in cpu.items()}


def replay(ctx, payload):
    case = payload.get("case", payload)
    ctx.case(case)
    eval_case(ctx, case)
