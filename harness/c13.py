"""C13 — bounding, bounded, circum- and in-spheres/circles satisfy their definitions."""
import random as pyrandom
import warnings
from fractions import Fraction

import numpy as np

import gen
from common import L, ModelRaise, exc_kind

RULE = ("convex solids from gen.convex_solid (C01 generator: all kinds, rigid motion, offset <=10 diameters, scale "
        "1e-3..1e3) + every tabulated solid (random placement) + special solids (boxes, cubes, tangential/non-tangential "
        "prisms, antiprisms, pyramids, dipyramids, non-cospherical dipyramid) + the same special solids / polygons under exact "
        "power-of-two scalings 2^-14..2^14 (solids) and 2^-30..2^30 (polygons, sizes 1e-9..1e9, half of them tilted and off-origin) + non-convex polyhedra (dented / edge-flipped "
        "simplicial hulls) for the vertex-based balls; polygons from gen.polygon2d (C04 generator) + regular n-gons, "
        "rectangles, squares, kites, rhombi, isosceles trapezoids, cyclic and tangential random polygons, triangles, "
        "embedded in random planes, scaled 1e-3..1e3, both orientations / explicit / opposing normal; circles, ellipses, "
        "spheres, ellipsoids with log-uniform semi-axes incl. ties; forced miniball failures (0,1,2,3,49,50 LinAlgErrors; max_attempts = 50); "
        "seed sweeps: cospherical vertex sets (prisms, boxes, antiprisms, Platonic/Archimedean solids, regular / cyclic "
        "polygons, rectangles; NEARLY tangential rectangles / kites / boxes / prisms (relative defect eps in 1e-6..1e-1) at 0, 1, "
        "10 diameters from the origin, rotated, all orientations (thorough also 1e2..1e4 diameters as a stress class outside "
        "the quantifier); generic prisms over polygons inscribed in an ellipse; unrotated, quarter-turned, randomly rotated) each under 40 (quick) / 100 (thorough) states of "
        "Python's global `random`. distinct = distinct case dicts; non-trivial = a shape with >= 3 (polygon) / 4 (solid) "
        "vertices or a curved shape")
ASSUMPTIONS = [
    "np.linalg.lstsq, miniball.get_bounding_ball, scipy.optimize.nnls, rowan.random.rand are inputs of the model. lstsq contract per call as a "
    "certificate: the driver solves the normal equations exactly over Q and checks them with lstsqCert (Lean: sound and "
    "complete for 'least-squares minimiser', also over Q); LAPACK's answer must exceed the exact minimum by <= 1e-16*scale^2 "
    "and resids must equal it (1e-6 relative); rotations unit",
    "minimal bounding ball: NOTHING is assumed about miniball. scipy.optimize.nnls (called by _is_minimal_bounding_ball) "
    "is an input of the model with the contract weights >= 0 and residual = |a w - b| (checked per call, exact over Q, 1e-9) "
    "and optimality certified by approximate KKT conditions (g >= -1e-9, sum w g <= 1e-9, exact over Q; Lean nnls_kkt_sound); "
    "decisions of the acceptance test closer than 1e-11 relative to one of its thresholds are not compared. A returned ball "
    "is judged by exact (Q) numbers only: max |v - c|^2 <= r^2 (1+1e-6), and r^2 <= (1+1e-6) * the squared radius of an "
    "independently computed containing ball; 'minimal' is counted as confirmed only inside the exact bracket "
    "[certLower, maxDistSq] of Lean theorem miniball_bracket",
    "existence of a circum-/in-ball is decided independently (Fractions for lattice inputs, an independent centred "
    "algebraic least-squares fit otherwise); only margin-separated cases decide: relative misfit <= 1e-9 must return, "
    ">= 1e-3 must raise RuntimeError; a returned ball must meet the definition within 2e-4*diameter (the code's own "
    "tolerance) and within 1e-8*scale when the ball clearly exists",
    "'centred at the centroid' is checked against an independent centroid (tetrahedra / shoelace) at 1e-7*scale; the "
    "centroid's own exactness is C01/C04",
    "signed_area (C04) and the face normals / equations (C07) are inputs of the model",
]

MAX_ATTEMPTS = 50  # `max_attempts` of the two getters (500eda1; 10 before)
MB_REL = 1e-6      # relative tolerance of everything derived from miniball
RHO_LO = 1e-9      # relative misfit below which a circum-/in-ball clearly exists
RHO_HI = 1e-3      # ... above which it clearly does not (code threshold 1e-4, see notes/C13.md)


# =========================================================================== recording the external calls


class Rec:
    """Wrap np.linalg.lstsq, miniball.get_bounding_ball and rowan.random.rand from the outside; optionally make the
    first `fail_first` miniball calls raise LinAlgError (a legal behaviour of the dependency)."""

    def __init__(self, fail_first=0):
        self.fail_first = fail_first
        self.lstsq = []
        self.mb = []      # (ok: bool, S, (c, r2) | None)
        self.nnls = []    # per miniball call: list of (a, b, weights, residual) recorded during that attempt
        self.rots = []
        self.other = None

    def __enter__(self):
        import miniball
        import rowan
        self._mods = (np.linalg, miniball, rowan.random)
        self._orig = (np.linalg.lstsq, miniball.get_bounding_ball, rowan.random.rand)
        o_l, o_m, o_r = self._orig

        def lstsq(a, b, rcond=None):
            r = o_l(a, b, rcond)
            self.lstsq.append((np.array(a, dtype=float), np.array(b, dtype=float), np.array(r[0], dtype=float),
                               np.array(r[1], dtype=float).reshape(-1)))
            return r

        def get_bounding_ball(S, *a, **k):
            S0 = np.array(S, dtype=float)
            self.nnls.append([])
            if len(self.mb) < self.fail_first:
                self.mb.append((False, S0, None))
                raise np.linalg.LinAlgError("forced by the harness")
            try:
                c, r2 = o_m(S, *a, **k)
            except np.linalg.LinAlgError:
                self.mb.append((False, S0, None))
                raise
            except Exception as e:  # noqa: BLE001
                self.other = exc_kind(e)
                raise
            self.mb.append((True, S0, (np.array(c, dtype=float), float(r2))))
            return c, r2

        import coxeter.shapes.utils as cu
        self._cu = cu
        self._o_nnls = getattr(cu, "nnls", None)

        def nnls_rec(a, b, *args, **kw):
            w, res = self._o_nnls(a, b, *args, **kw)
            if self.nnls:
                self.nnls[-1].append((np.array(a, dtype=float), np.array(b, dtype=float), np.array(w, dtype=float),
                                      float(res)))
            return w, res

        if self._o_nnls is not None:
            cu.nnls = nnls_rec

        def rand(*a, **k):
            q = o_r(*a, **k)
            self.rots.append(np.array(q, dtype=float).reshape(-1)[:4])
            return q

        np.linalg.lstsq = lstsq
        miniball.get_bounding_ball = get_bounding_ball
        rowan.random.rand = rand
        return self

    def __exit__(self, *exc):
        np.linalg.lstsq = self._orig[0]
        self._mods[1].get_bounding_ball = self._orig[1]
        self._mods[2].rand = self._orig[2]
        if self._o_nnls is not None:
            self._cu.nnls = self._o_nnls
        return False


def call(fn):
    try:
        with warnings.catch_warnings():
            warnings.simplefilter("ignore")
            b = fn()
        return ("ok", float(b.radius), np.asarray(b.centroid, dtype=float).reshape(-1)[:3].copy(), type(b).__name__)
    except Exception as e:  # noqa: BLE001
        return ("exc", exc_kind(e), repr(e))


def model(ctx, op, *args):
    try:
        r = ctx.driver.F(op, *args)
        return ("ok", r[0], np.array(r[1:4]))
    except ModelRaise as e:
        return ("exc", e.kind)


def compare(ctx, op, case, impl, mod, scale, tol=1e-9):
    if impl[0] != mod[0]:
        ctx.disagree(op, case, ["impl", impl[:2], "model", mod[:2]])
        return False
    if impl[0] == "exc":
        if impl[1] != mod[1]:
            ctx.disagree(op, case, ["impl raised", impl[1], "model raised", mod[1]])
            return False
        return True
    if not (ctx.close_enough(impl[1], mod[1], scale, tol) and ctx.close_enough(impl[2], mod[2], scale, tol)):
        ctx.disagree(op, case, ["impl", impl[1], impl[2], "model", mod[1], mod[2]])
        return False
    return True


def rows_tokens(A, k, b):
    return L([np.r_[np.asarray(A[i][:3], dtype=float), float(k[i]), float(b[i])] for i in range(len(b))])


def lstsq_contract(ctx, what, rec_entry):
    """The lstsq contract as a decidable certificate: the driver solves the normal equations exactly over Q, checks
    them with `lstsqCert` (Lean: `lstsqCert_iff`, sound and complete for 'least-squares minimiser'), and reports the
    exact minimum and the exact excess |A(x,r)-b|^2 - min of LAPACK's answer (`lstsq_excess`). Returns None if the
    contract does not hold, else {"min": exact minimum, "excess": ..., "xstar": ...}."""
    A, b, x, resids = rec_entry
    if A.shape[1] == 3:
        k = np.zeros(len(b))
        xr, rr = x, 0.0
    else:
        k = A[:, 3]
        xr, rr = x[:3], float(x[3])
    q = ctx.driver.Q("s.lstsqmin", rows_tokens(A, k, b), np.asarray(xr, dtype=float), float(rr))
    cert = bool(q[0])
    xs = np.array([float(t) for t in q[1:5]])
    mn = float(q[5])
    excess = float(q[6])
    nA = float(np.linalg.norm(A))
    nb = float(np.linalg.norm(b))
    scale2 = (nA * float(np.linalg.norm(x)) + nb) ** 2 + 1e-300
    ok = cert and 0 <= excess <= 1e-16 * scale2
    if resids.size == 1:
        ok = ok and abs(float(resids[0]) - mn) <= 1e-6 * max(abs(float(resids[0])), mn) + 1e-18 * nb * nb
    ctx.count("lstsq:exact-certificate:" + ("ok" if ok else "FAILED"))
    if not ok:
        ctx.contract_failures.append({"contract": "lstsq: exact normal-equation certificate / minimum / resids",
                                      "where": what, "certificate": cert, "excess": excess, "scale2": scale2,
                                      "resids": resids.tolist(), "exact_min": mn})
        return None
    return {"min": mn, "excess": excess, "xstar": xs}


def support_weights(pts, c, r2, rel=MB_REL):
    """non-negative weights on the points at distance ~r from c with sum lambda_j (p_j - c) ~ 0 (NNLS); None if none."""
    from scipy.optimize import nnls
    pts = np.asarray(pts, dtype=float)
    c = np.asarray(c, dtype=float).reshape(-1)[:3]
    if not (np.isfinite(r2) and r2 > 0 and np.all(np.isfinite(c))):
        return None
    d2 = np.sum((pts - c) ** 2, axis=1)
    sup = np.where(np.abs(d2 - r2) <= rel * r2)[0]
    if len(sup) == 0:
        return None
    r = np.sqrt(r2)
    M = np.vstack([((pts[sup] - c) / r).T, np.ones(len(sup))])
    lam, _ = nnls(M, np.array([0.0, 0.0, 0.0, 1.0]))
    keep = lam > 0
    if not np.any(keep):
        return None
    return [np.r_[lam[j], pts[sup[j]]] for j in range(len(sup)) if keep[j]]


def bracket(ctx, pts, c, sup):
    """exact (Q) bracket of the squared radius of the minimal ball of pts: (side ok, lower bound from the weighted
    support, max_i |p_i - c|^2). Lean: `miniball_bracket` (any weights >= 0, any centre)."""
    q = ctx.driver.Q("s.certbracket", L(list(np.asarray(pts, dtype=float))), np.asarray(c, dtype=float), L(sup or []))
    return bool(q[0]), float(q[1]), float(q[2])


def _circum_minnorm(R):
    """smallest sphere through the points R (centre in their affine hull): min-norm solution by pinv."""
    p0 = R[0]
    if len(R) == 1:
        return p0.copy(), 0.0
    A = 2 * (R[1:] - p0)
    b = np.sum((R[1:] - p0) ** 2, axis=1)
    x = np.linalg.pinv(A) @ b
    return p0 + x, float(x @ x)


def _welzl(P, order, eps):
    """move-to-front Welzl with a containment tolerance (independent of the `miniball` package)."""
    import sys
    sys.setrecursionlimit(max(sys.getrecursionlimit(), 4 * len(P) + 200))

    def inside(ball, p):
        c, r2 = ball
        return float(np.sum((p - c) ** 2)) <= r2 + eps

    def rec(n, R):
        ball = _circum_minnorm(np.array(R)) if R else (P[order[0]].copy(), 0.0)
        if len(R) == 4:
            return ball
        for i in range(n):
            p = P[order[i]]
            if not inside(ball, p):
                ball = rec(i, R + [p])
                order.insert(0, order.pop(i))
        return ball

    return rec(len(order), [])


def oracle_minball(ctx, pts):
    """independent minimal ball of pts, accepted only with an exact bracket: returns (c, LB, U) with
    LB <= r_opt^2 <= U = max |p - c|^2 (both exact over Q), or None."""
    P = np.asarray(pts, dtype=float)
    m = P.mean(axis=0)
    Y = P - m
    d2 = float(np.max(np.sum(Y * Y, axis=1))) + 1e-300
    best = None
    for attempt in range(4):
        order = list(range(len(Y)))
        if attempt:
            order = [int(i) for i in np.random.default_rng(attempt).permutation(len(Y))]
        try:
            c, r2 = _welzl(Y, order, 1e-12 * d2)
        except (np.linalg.LinAlgError, RecursionError):
            continue
        c = c + m
        sup = support_weights(P, c, float(np.max(np.sum((P - c) ** 2, axis=1))), rel=1e-7)
        side, lb, ub = bracket(ctx, P, c, sup)
        if side and ub - lb <= 1e-9 * ub:
            return c, lb, ub
        if side and (best is None or ub - lb < best[2] - best[1]):
            best = (c, lb, ub)
    return best


def seed_globals(seed):
    pyrandom.seed(int(seed))
    np.random.seed(int(seed) % (2 ** 32))


# =========================================================================== independent geometry (oracle side)


def qr_lstsq(A, b):
    """least squares by QR (independent of LAPACK gelsd used by np.linalg.lstsq). Returns x, |Ax-b|^2."""
    Q, R = np.linalg.qr(A)
    x = np.linalg.solve(R, Q.T @ b)
    e = A @ x - b
    return x, float(e @ e)


def sphere_fit(P):
    """algebraic fit |p|^2 = 2 c.p + k in coordinates centred at the mean. Returns centre, radius, rho = relative
    misfit sqrt(min residual)/diam^2 (0 iff a sphere/circle through all points exists). P is (n, dim)."""
    P = np.asarray(P, dtype=float)
    m = P.mean(axis=0)
    Y = P - m
    d = gen.diameter(np.c_[Y, np.zeros((len(Y), 3 - Y.shape[1]))]) if Y.shape[1] < 3 else gen.diameter(Y)
    A = np.c_[2 * Y, np.ones(len(Y))]
    b = np.sum(Y * Y, axis=1)
    try:
        x, res = qr_lstsq(A, b)
    except np.linalg.LinAlgError:
        return None, None, None
    c = x[:-1]
    r2 = x[-1] + c @ c
    rho = np.sqrt(max(res, 0.0)) / d ** 2
    return c + m, (np.sqrt(r2) if r2 > 0 else float("nan")), float(rho)


def tangent_fit(N, D, d):
    """planes/lines n.p + d <= 0 with unit normals: solve n_i.c + r = -d_i. Returns c, r, rho = sqrt(res)/diam."""
    A = np.c_[N, np.ones(len(N))]
    try:
        x, res = qr_lstsq(A, -np.asarray(D))
    except np.linalg.LinAlgError:
        return None, None, None
    return x[:-1], float(x[-1]), float(np.sqrt(max(res, 0.0)) / d)


def exact_cospherical(V):
    """Exact (Fractions) decision for integer-valued vertices: is the system (v_i-v_0).x = |v_i-v_0|^2/2 consistent?"""
    P = [[Fraction(int(t)) for t in (row - V[0])] for row in V[1:]]
    M = [p + [sum(t * t for t in p) / 2] for p in P]
    ncol = len(P[0])
    r = 0
    for col in range(ncol):
        piv = next((i for i in range(r, len(M)) if M[i][col] != 0), None)
        if piv is None:
            continue
        M[r], M[piv] = M[piv], M[r]
        for i in range(len(M)):
            if i != r and M[i][col] != 0:
                f = M[i][col] / M[r][col]
                M[i] = [a - f * b for a, b in zip(M[i], M[r])]
        r += 1
    return all(row[-1] == 0 for row in M[r:])


def unique_planes(v):
    """facet planes of conv(v) from an independent hull, merged at 1e-9."""
    from scipy.spatial import ConvexHull
    h = ConvexHull(v)
    d = gen.diameter(v)
    out = []
    for eq in h.equations:
        for e in out:
            if np.all(np.abs(e[:3] - eq[:3]) < 1e-9) and abs(e[3] - eq[3]) < 1e-9 * d:
                break
        else:
            out.append(eq)
    return np.array(out)


def solid_centroid(v):
    tets, _, _ = gen.cone_tets(v)
    vol = 0.0
    mom = np.zeros(3)
    for t in tets:
        w = np.linalg.det(t[1:] - t[0]) / 6
        vol += w
        mom += w * t.mean(axis=0)
    return mom / vol


def plane_frame(v):
    """orthonormal frame (o, u, w, n) of the plane of the polygon v (Newell normal)."""
    v = np.asarray(v, dtype=float)
    o = v.mean(axis=0)
    y = v - o
    n = np.sum(np.cross(y, np.roll(y, -1, axis=0)), axis=0)
    n /= np.linalg.norm(n)
    u = y[np.argmax(np.linalg.norm(y, axis=1))]
    u = u - n * (u @ n)
    u /= np.linalg.norm(u)
    w = np.cross(n, u)
    return o, u, w, n


def to2d(v, fr):
    o, u, w, n = fr
    y = np.asarray(v, dtype=float) - o
    return np.c_[y @ u, y @ w]


def polygon_centroid2d(p):
    x, y = p[:, 0], p[:, 1]
    xn, yn = np.roll(x, -1), np.roll(y, -1)
    cr = x * yn - xn * y
    a = cr.sum() / 2
    return np.array([((x + xn) * cr).sum(), ((y + yn) * cr).sum()]) / (6 * a), a


def is_convex2d(p):
    e = np.roll(p, -1, axis=0) - p
    cr = e[:, 0] * np.roll(e, -1, axis=0)[:, 1] - e[:, 1] * np.roll(e, -1, axis=0)[:, 0]
    s = np.linalg.norm(e, axis=1) * np.linalg.norm(np.roll(e, -1, axis=0), axis=1)
    return bool(np.all(cr > 1e-9 * s) or np.all(cr < -1e-9 * s))


def seg_dist(c, a, b):
    ab = b - a
    t = np.clip(((c - a) @ ab) / (ab @ ab), 0, 1)
    return float(np.linalg.norm(c - (a + t * ab)))


# =========================================================================== the clauses shared by solids and polygons


def check_circum(ctx, case, cls, attr, p, verts, normal, Ls, d):
    """B + contract + C for circumsphere (normal is None) / circumcircle."""
    three = normal is None
    sig0 = "%s.%s" % (cls, attr)
    with Rec() as rec:
        impl = call(lambda: getattr(p, attr))
    if len(rec.lstsq) != 1:
        ctx.disagree("b." + attr + ":lstsq-calls", case, len(rec.lstsq))
        return
    A, b, x, resids = rec.lstsq[0]
    thresh = 4 if three else 3
    rows_atol = [None]

    def correspondence():
        # ---- B: the system, the guard and the result
        try:
            if three:
                rows = ctx.driver.F("b.circumsys", L(list(verts)))
            else:
                rows = ctx.driver.F("b.circumsysc", L(list(verts)), normal)
        except ModelRaise as e:
            ctx.disagree("b.circumsys", case, e.kind)
            return
        atol = rows[-1]
        rows_atol[0] = atol
        R = np.array(rows[:-1]).reshape(-1, 5)
        if R.shape[0] != A.shape[0] or not (ctx.close_enough(R[:, :3], A, Ls) and ctx.close_enough(R[:, 4], b, Ls * d)):
            ctx.disagree("b.circumsys:rows", case, [R.shape, A.shape])
            return
        if len(verts) > thresh and resids.size == 1 and abs(abs(float(resids[0])) - atol) <= 1e-6 * atol:
            ctx.skipped_near_boundary += 1
            return
        if three:
            mod = model(ctx, "b.circumsphere", L(list(verts)), x, L(list(resids)))
        else:
            mod = model(ctx, "b.circumcircle", L(list(verts)), normal, x, L(list(resids)))
        compare(ctx, "b." + attr, case, impl, mod, Ls + float(np.linalg.norm(x)))

    correspondence()
    # radius getter
    rg = call_scalar(lambda: getattr(p, attr + "_radius"))
    if (impl[0] == "ok") != (rg[0] == "ok") or (impl[0] == "ok" and not ctx.close_enough(rg[1], impl[1], Ls, 1e-12)):
        ctx.fail(sig0 + "_radius:getter", "the _radius getter disagrees with the ball", case, [impl[:2], rg])
    check_radiusof(ctx, case, impl, rg)
    lc = lstsq_contract(ctx, sig0, rec.lstsq[0])
    if lc is None:
        return
    refusal_iff_exact(ctx, case, "b." + attr, impl, len(verts), thresh, rows_atol[0], lc["min"])
    # ---- C: the definition, decided independently
    if three:
        c_or, r_or, rho = sphere_fit(verts)
        c3 = c_or
    else:
        fr = plane_frame(verts)
        c2, r_or, rho = sphere_fit(to2d(verts, fr))
        c3 = None if c2 is None else fr[0] + c2[0] * fr[1] + c2[1] * fr[2]
    if rho is None:
        return
    exact = None
    if case.get("lattice") and np.all(verts == np.round(verts)) and np.max(np.abs(verts)) < 2 ** 40:
        exact = exact_cospherical(verts)
        ctx.count("circum:exact-Q:" + ("exists" if exact else "none"))
    exists = (exact is True) or (exact is None and rho <= RHO_LO) or len(verts) <= thresh
    absent = len(verts) > thresh and ((exact is False and rho >= RHO_HI) or (exact is None and rho >= RHO_HI))
    if exact is True and rho > 1e-6:
        ctx.fail("oracle:self-check", "exact and floating existence decisions disagree", case, [rho])
        return
    ctx.count("circum:%s:%s" % ("3d" if three else "2d", "exists" if exists else "absent" if absent else "margin"))
    if impl[0] == "ok":
        r, c = impl[1], impl[2]
        dev = float(np.max(np.abs(np.linalg.norm(verts - c, axis=1) - r)))
        tol = 1e-8 * Ls if exists else 2e-4 * d
        if dev > tol:
            ctx.fail(sig0 + ":through-vertices" + (":nonexistent-not-refused" if absent else ""),
                     "returned ball does not pass through every vertex", case, [dev, tol, rho, r, c])
        elif absent:
            ctx.fail(sig0 + ":nonexistent-not-refused", "no circum-ball exists but one was returned", case, [rho, r, c])
        if not three:
            offp = abs(float(normal @ (c - verts[0])))
            fr = plane_frame(verts)
            offp2 = abs(float(fr[3] @ (c - fr[0])))
            if offp2 > (1e-8 * Ls if exists else 2e-4 * max(d, d * d)):
                ctx.fail(sig0 + ":in-plane", "circumcircle centre is not in the polygon's plane", case, [offp, offp2])
        if (not three) and exists and c3 is not None and r_or is not None and np.isfinite(r_or):
            # accuracy relative to the polygon's OWN size (0897fc7: with a unit plane row in the lstsq system the
            # conditioning grew like 1/size); reference: circle fitted in coordinates relative to the vertex mean
            acc_tol = 1e-9 * d + 1e-13 * float(np.linalg.norm(verts.mean(axis=0)))
            err = max(abs(r - r_or), float(np.linalg.norm(c - c3)))
            ctx.count("circumcircle:accuracy-vs-own-size:" + ("ok" if err <= acc_tol else "LOST"))
            if err > acc_tol:
                ctx.fail(sig0 + ":accuracy-degrades-at-small-scale",
                         "circumcircle centre/radius are not accurate to 1e-9 relative to the polygon's own size", case,
                         {"error/size": err / d, "size": d, "r": r, "r_ref": r_or, "c": c, "c_ref": c3})
        if exists and len(verts) > thresh and c3 is not None:
            if not (ctx.close_enough(r, r_or, Ls, 1e-7) and ctx.close_enough(c, c3, Ls, 1e-7)):
                ctx.fail(sig0 + ":value", "circum-ball differs from the independently fitted one", case,
                         [r, r_or, c, c3])
    elif impl[1] == "RuntimeError":
        if exists:
            ctx.fail(sig0 + ":exists-but-raises", "a circum-ball exists but RuntimeError was raised", case, [rho, exact])
    else:
        ctx.fail(sig0 + ":raises-other", "raised %s" % impl[1], case, impl[2])


def refusal_iff_exact(ctx, case, op, impl, nverts, thresh, atol, exact_min):
    """B for the theorems `*_raises_iff`: with more than `thresh` vertices the implementation raises RuntimeError iff
    the EXACT least-squares minimum (Q) exceeds the model's tolerance (decision cases near the threshold dropped)."""
    if atol is None or nverts <= thresh:
        return
    if abs(exact_min - atol) <= 1e-6 * atol:
        ctx.skipped_near_boundary += 1
        return
    expect = exact_min > atol
    got = impl[0] == "exc" and impl[1] == "RuntimeError"
    ctx.count("refusal-iff-exact-residual:" + ("raise" if expect else "return"))
    if got != expect and not (impl[0] == "exc" and impl[1] == "ValueError" and not expect):
        ctx.disagree(op + ":raises-iff-exact-residual-above-atol", case,
                     {"exact_min": exact_min, "atol": atol, "impl": impl[:2]})


def call_scalar(fn):
    try:
        with warnings.catch_warnings():
            warnings.simplefilter("ignore")
            return ("ok", float(fn()))
    except Exception as e:  # noqa: BLE001
        return ("exc", exc_kind(e))


def check_in(ctx, case, cls, attr, p, verts, Ls, d, planes_or, model_sys, model_ball, in_plane=None):
    """B + contract + C for insphere / incircle. planes_or: independent (N, D) unit outward normals and offsets
    (n.p + D <= 0) of the faces / edge lines (in 3-D); model_sys/model_ball: closures calling the driver."""
    sig0 = "%s.%s" % (cls, attr)
    with Rec() as rec:
        impl = call(lambda: getattr(p, attr))
    if len(rec.lstsq) != 1:
        if impl[0] == "exc" and impl[1] not in ("RuntimeError", "ValueError"):
            ctx.fail(sig0 + ":raises-other", "raised %s" % impl[1], case, impl[2])
        else:
            ctx.disagree("b." + attr + ":lstsq-calls", case, len(rec.lstsq))
        return
    A, b, x, resids = rec.lstsq[0]
    thresh = 4 if cls.endswith("Polyhedron") else 3
    rows_atol = [None]

    def correspondence():
        try:
            rows = model_sys()
        except ModelRaise as e:
            ctx.disagree("b.insys", case, e.kind)
            return
        atol = rows[-1]
        rows_atol[0] = atol
        R = np.array(rows[:-1]).reshape(-1, 5)
        if R.shape[0] != A.shape[0] or not (ctx.close_enough(R[:, :4], A, 1.0) and ctx.close_enough(R[:, 4], b, Ls)):
            ctx.disagree("b.insys:rows", case, [R.shape, A.shape])
            return
        if len(verts) > thresh and resids.size == 1 and abs(abs(float(resids[0])) - atol) <= 1e-6 * atol:
            ctx.skipped_near_boundary += 1
            return
        mod = model_ball(x[:3], float(x[3]), resids)
        compare(ctx, "b." + attr, case, impl, mod, Ls + abs(float(x[3])))

    correspondence()
    rg = call_scalar(lambda: getattr(p, attr + "_radius"))
    if (impl[0] == "ok") != (rg[0] == "ok") or (impl[0] == "ok" and not ctx.close_enough(rg[1], impl[1], Ls, 1e-12)):
        ctx.fail(sig0 + "_radius:getter", "the _radius getter disagrees with the ball", case, [impl[:2], rg])
    check_radiusof(ctx, case, impl, rg)
    lc = lstsq_contract(ctx, sig0, rec.lstsq[0])
    if lc is None:
        return
    refusal_iff_exact(ctx, case, "b." + attr, impl, len(verts), thresh, rows_atol[0], lc["min"])
    if planes_or is None:
        return
    N, D = planes_or
    if in_plane is not None:
        # solve in the plane: 2-D normals
        fr = in_plane
        N2 = np.c_[N @ fr[1], N @ fr[2]]
        D2 = D + N @ fr[0]
        c2, r_or, rho = tangent_fit(N2, D2, d)
        c_or = None if c2 is None else fr[0] + c2[0] * fr[1] + c2[1] * fr[2]
    else:
        # decide in coordinates relative to the vertex mean (the decision must not depend on the placement)
        m0 = verts.mean(axis=0)
        c_or, r_or, rho = tangent_fit(N, D + N @ m0, d)
        c_or = None if c_or is None else c_or + m0
    if rho is None:
        return
    if "eps" in case.get("info", {}):
        ctx.count("near-tangential:rho:%s" % ("<1e-9" if rho <= RHO_LO else "1e-9..1e-4" if rho < 1e-4 else
                                             "1e-4..1e-3" if rho < RHO_HI else "1e-3..3e-3" if rho < 3e-3 else ">=3e-3"))
    small = len(verts) <= thresh
    exists = (rho <= RHO_LO and r_or > 0) or small
    absent = (not small) and rho >= RHO_HI
    ctx.count("in:%s:%s" % ("2d" if in_plane is not None else "3d",
                            "exists" if exists else "absent" if absent else "margin"))
    if impl[0] == "ok":
        r, c = impl[1], impl[2]
        off = N @ c + D + r       # 0 = tangent
        tol = 1e-8 * Ls if exists else 2e-4 * d
        if float(np.max(np.abs(off))) > tol:
            ctx.fail(sig0 + ":tangent" + (":nonexistent-not-refused" if absent else ""),
                     "returned ball is not tangent to every face/edge from inside", case,
                     [float(np.max(np.abs(off))), tol, rho, r, c])
        elif absent:
            ctx.fail(sig0 + ":nonexistent-not-refused", "no in-ball exists but one was returned", case, [rho, r, c])
        if float(np.max(N @ c + D)) > tol or not r > 0:
            ctx.fail(sig0 + ":inside", "in-ball centre is not inside the shape", case, [float(np.max(N @ c + D)), r])
        if in_plane is not None and abs(float(in_plane[3] @ (c - in_plane[0]))) > (1e-8 * Ls if exists else 2e-4 * d):
            ctx.fail(sig0 + ":in-plane", "incircle centre is not in the polygon's plane", case, [c])
        if exists and not small and c_or is not None:
            if not (ctx.close_enough(r, r_or, Ls, 1e-7) and ctx.close_enough(c, c_or, Ls, 1e-7)):
                ctx.fail(sig0 + ":value", "in-ball differs from the independently solved one", case, [r, r_or, c, c_or])
    elif impl[1] == "RuntimeError":
        if exists:
            ctx.fail(sig0 + ":exists-but-raises", "an in-ball exists but RuntimeError was raised", case, [rho])
    else:
        if exists:
            ctx.fail(sig0 + ":exists-but-raises", "an in-ball exists but %s was raised" % impl[1], case, [rho, impl[2]])
        else:
            ctx.fail(sig0 + ":raises-other", "raised %s" % impl[1], case, impl[2])


def check_minimal_bounding(ctx, case, cls, attr, p, verts, Ls, d, fail_first, seed):
    sig0 = "%s.%s" % (cls, attr)
    seed_globals(seed)
    with Rec(fail_first) as rec:
        impl = call(lambda: getattr(p, attr))
    ctx.count("miniball:attempts=%d" % len(rec.mb))
    if rec.other is not None:
        ctx.contract_failures.append({"contract": "miniball raises only LinAlgError", "where": sig0, "got": rec.other})
        return
    # ---- B
    outcomes = []
    near = False
    for k, (ok, S, res) in enumerate(rec.mb):
        calls = rec.nnls[k] if k < len(rec.nnls) else []
        resid = calls[0][3] if calls else float("inf")
        outcomes.append([1, res[0], res[1], resid] if ok else [0, np.zeros(3), 0.0, float("inf")])
        if ok:
            near = check_acceptance(ctx, case, sig0, S, res, calls,
                                    accepted=(k == len(rec.mb) - 1 and impl[0] == "ok")) or near
    if near:
        ctx.skipped_near_boundary += 1
    else:
        mod = model(ctx, "b.minbound", L(list(verts)), L(outcomes), L(list(rec.rots)))
        compare(ctx, "b.minbound", case, impl, mod, Ls)
    for k, (ok, S, res) in enumerate(rec.mb):
        if k == 0:
            same = S.shape == verts.shape and bool(np.array_equal(S, verts))
        else:
            if k - 1 >= len(rec.rots):
                ctx.disagree("b.rotate:missing-rotation", case, k)
                break
            rot = np.array(ctx.driver.F("b.rotate", rec.rots[k - 1], L(list(verts)))).reshape(-1, 3)
            same = S.shape == rot.shape and ctx.close_enough(S, rot, Ls)
        if not same:
            ctx.disagree("b.rotate:attempt-%d" % (k + 1), case, "points handed to miniball differ from the model's")
            break
    # ---- contracts
    good = True
    for q in rec.rots:
        if abs(float(q @ q) - 1) > 1e-12:
            ctx.contract_failures.append({"contract": "rowan.random.rand unit", "got": q.tolist()})
            good = False
    n_fail = sum(1 for ok, _, _ in rec.mb if not ok)
    # ---- C
    natural_fail = n_fail - min(fail_first, len(rec.mb))
    if impl[0] == "exc":
        if impl[1] == "RuntimeError" and fail_first == 0:
            # no failure was forced: every attempt failed on its own (LinAlgError inside miniball, or an answer rejected by
            # the acceptance test). A VALID shape has a minimal bounding ball; giving up is a violation (500eda1)
            n_rej = sum(1 for ok, _, _ in rec.mb if ok)
            ctx.count("miniball:gave-up-on-valid-shape")
            ctx.fail(sig0 + ":raises-for-valid-shape",
                     "RuntimeError although the shape is valid: all %d attempts failed (%d LinAlgError in miniball, %d "
                     "answers rejected)" % (len(rec.mb), n_fail, n_rej), case, [impl[2], n_fail, n_rej])
            return
        last_good = bool(rec.mb) and rec.mb[-1][0] and answer_looks_right(rec.mb[-1][1], *rec.mb[-1][2])
        if impl[1] == "RuntimeError" and len(rec.mb) >= MAX_ATTEMPTS and not last_good:
            if fail_first < MAX_ATTEMPTS:
                ctx.contract_failures.append({"contract": "miniball succeeds within %d attempts" % MAX_ATTEMPTS,
                                              "where": sig0, "natural_failures": natural_fail})
            return
        ctx.fail(sig0 + ":raises:%s-failed-attempts" % ("all-but-last" if n_fail >= MAX_ATTEMPTS - 1 else str(n_fail)),
                 "raised %s although an attempt succeeded" % impl[1], case, [impl[2], n_fail, len(rec.mb)])
        return
    if fail_first >= MAX_ATTEMPTS:
        ctx.fail(sig0 + ":no-raise-after-all-attempts-failed", "returned a ball although all %d attempts failed" % MAX_ATTEMPTS,
                 case, impl[:2])
        return
    if not good:
        return
    r, c = impl[1], impl[2]
    judge_minimal_ball(ctx, case, sig0, verts, r, c, rec, n_fail)
    # the getter runs miniball again: same seeds and same forced failures give the identical run
    seed_globals(seed)
    with Rec(fail_first):
        rg = call_scalar(lambda: getattr(p, attr + "_radius"))
    if rg[0] != "ok" or not ctx.close_enough(rg[1], r, Ls, 1e-12):
        ctx.fail(sig0 + "_radius:getter", "the _radius getter disagrees with the ball", case, [r, rg])
    # deprecated alias (bounding_sphere / bounding_circle): the same run again
    alias = "bounding_" + attr.rsplit("_", 1)[1]
    seed_globals(seed)
    with Rec(fail_first):
        al = call(lambda: getattr(p, alias))
    if al[0] != "ok" or not (ctx.close_enough(al[1], r, Ls, 1e-12) and ctx.close_enough(al[2], c, Ls, 1e-12)):
        ctx.fail("%s.%s:alias" % (cls, alias), "the deprecated alias differs from " + attr, case, [al[:3], r, c])
    check_radiusof(ctx, case, impl, rg)


def check_acceptance(ctx, case, sig0, S, res, calls, accepted):
    """B + contract for one `_is_minimal_bounding_ball(S, c, r2)` call of the repaired code (da3be45): the model's test
    (`Balls.isMinimalBoundingBall`, fed the residual nnls reported) must decide as the implementation did; whether nnls
    is reached and the boundary points must agree; nnls contract: weights >= 0 and residual^2 = |a w - b|^2 (exact, Q).
    Returns True when a decision of the test is too close to one of its thresholds to be compared."""
    c, r2 = res
    if not (np.isfinite(r2) and np.all(np.isfinite(c))):
        return True
    d2 = np.sum((S - c) ** 2, axis=1)
    if r2 > 0 and (abs(float(np.max(d2)) - r2 * (1 + 1e-8)) <= 1e-11 * r2
                   or np.any(np.abs(d2 - r2 * (1 - 1e-6)) <= 1e-11 * r2)):
        return True
    resid = calls[0][3] if calls else float("inf")
    if calls and abs(resid - 1e-6) <= 1e-8:
        return True
    q = ctx.driver.F("b.accept", L(list(S)), c, float(r2), resid)
    acc, reach, nb = bool(q[0]), bool(q[1]), int(q[2])
    bd = np.array(q[3:], dtype=float).reshape(-1, 3)
    ctx.count("acceptance-test:" + ("accepted" if accepted else "rejected"))
    if acc != accepted or reach != bool(calls) or len(calls) > 1:
        ctx.disagree("b.accept", case, {"impl accepted": accepted, "model": acc, "nnls called": len(calls),
                                          "model reaches nnls": reach, "c": c, "r2": r2})
        return False
    if calls:
        a, b, w, _ = calls[0]
        if a.shape != (4, nb) or not ctx.close_enough(a[:3].T, (bd - c) / np.sqrt(r2), 1.0, 1e-9):
            ctx.disagree("b.accept:nnls-system", case, [a.shape, nb])
            return False
        exact = float(ctx.driver.Q("s.nnlsresid", L(list(bd)), c, float(r2), L([float(t) for t in w]))[0])
        ok = bool(np.all(w >= 0)) and resid >= 0 and abs(resid - np.sqrt(max(exact, 0.0))) <= 1e-9
        ctx.count("nnls:contract:" + ("ok" if ok else "FAILED"))
        # optimality of nnls as a certificate: approximate KKT conditions, exact over Q (Lean: nnls_kkt_sound)
        kq = ctx.driver.Q("s.nnlskkt", L(list(bd)), c, float(r2), L([float(t) for t in w]))
        delta, kappa = max(0.0, -float(kq[0])), max(0.0, float(kq[1]))
        kkt = delta <= 1e-9 and kappa <= 1e-9
        ctx.count("nnls:kkt-certificate:" + ("ok" if kkt else "FAILED"))
        if not kkt:
            ctx.contract_failures.append({"contract": "nnls optimal (KKT: g >= -delta, sum w g <= kappa)", "where": sig0,
                                          "delta": delta, "kappa": kappa})
        if not ok:
            ctx.contract_failures.append({"contract": "nnls: weights >= 0, residual = |a w - b|", "where": sig0,
                                          "residual": resid, "exact |a w - b|": float(np.sqrt(max(exact, 0.0))),
                                          "min weight": float(np.min(w)) if len(w) else None})
    return False


def answer_looks_right(S, c, r2):
    """independent float test of a miniball answer: contains its points and has a support certificate (own NNLS)."""
    if not (np.isfinite(r2) and r2 > 0 and np.all(np.isfinite(c))):
        return False
    d2 = np.sum((S - c) ** 2, axis=1)
    if float(np.max(d2)) > r2 * (1 + 1e-8):
        return False
    sup = support_weights(S, c, r2)
    if not sup:
        return False
    w = np.array([t[0] for t in sup]); P = np.array([t[1:] for t in sup])
    return bool(abs(w.sum() - 1) <= 1e-6 and np.linalg.norm(w @ (P - c)) <= 1e-6 * np.sqrt(r2))


def judge_minimal_ball(ctx, case, sig0, verts, r, c, rec, n_fail):
    """C for a returned minimal bounding ball (r, c). A failure is reported only with an explicit witness: a vertex
    outside the ball, or a strictly smaller ball containing every vertex (exact over Q). A pass is counted as
    confirmed only when r^2 lies inside the exact bracket [LB, U] of `miniball_bracket` up to MB_REL."""
    tol = MB_REL
    r2 = r * r
    _, _, u_impl = bracket(ctx, verts, c, None)           # exact max |v - c|^2
    opt = oracle_minball(ctx, verts)
    not_containing = u_impl > r2 * (1 + tol)
    not_minimal = opt is not None and r2 > opt[2] * (1 + tol)
    if not (not_containing or not_minimal):
        if opt is not None and opt[2] - opt[1] <= 1e-9 * opt[2] and r2 <= opt[1] * (1 + tol):
            ctx.count("miniball:minimal-confirmed-by-exact-bracket")
        else:
            # fall back on a certificate for the returned ball itself
            sup = support_weights(verts, c, r2)
            side, lb, ub = bracket(ctx, verts, c, sup)
            if side and r2 <= lb * (1 + tol):
                ctx.count("miniball:minimal-confirmed-by-exact-bracket")
            else:
                ctx.count("miniball:minimality-unconfirmed(no certified optimum available)")
        return
    # is the result miniball itself returned (for the points it was given) already wrong?  Then coxeter passed an
    # unverified answer of its dependency on: the known finding. Otherwise the fault is coxeter's own (rotation, ...).
    raw_bad = False
    if rec is not None and rec.mb and rec.mb[-1][0]:
        S, (c_raw, r2_raw) = rec.mb[-1][1], rec.mb[-1][2]
        u_raw = float(np.max(np.sum((S - c_raw) ** 2, axis=1)))
        raw_bad = (u_raw > r2_raw * (1 + tol)) or (opt is not None and r2_raw > opt[2] * (1 + tol))
    detail = {"r": r, "c": c, "max|v-c|^2 (exact)": u_impl, "r^2": r2,
              "optimum r^2 in": None if opt is None else [opt[1], opt[2]],
              "smaller containing ball": None if opt is None else {"c": opt[0], "r": float(np.sqrt(opt[2]))},
              "miniball attempts": len(rec.mb) if rec is not None else None, "failed attempts": n_fail}
    if raw_bad:
        ctx.count("miniball:unverified-wrong-result")
        ctx.fail(sig0 + ":miniball-result-not-verified",
                 "the ball returned by the miniball package for the points it was given is %s, and coxeter accepted "
                 "it" % ("missing a vertex" if u_impl > r2 * (1 + tol) else "not minimal"), case, detail)
        return
    clause = "contains-vertices" if not_containing else "minimal"
    ctx.fail(sig0 + ":" + clause + (":retried" if n_fail else ""),
             "returned ball is not the minimal ball containing every vertex", case, detail)


KIND_CODE = {"RuntimeError": 0, "ValueError": 1, "NotImplementedError": 2}


def check_radiusof(ctx, case, ball, getter):
    """B for the glue `radiusOf`: what the `<ball>_radius` getter gives, from what the ball getter gave."""
    try:
        if ball[0] == "ok":
            m = ("ok", float(ctx.driver.F("b.radiusof", 1, float(ball[1]), np.asarray(ball[2], dtype=float))[0]))
        elif ball[1] in KIND_CODE:
            ctx.driver.F("b.radiusof", 0, KIND_CODE[ball[1]])
            m = ("ok", None)
        else:
            return
    except ModelRaise as e:
        m = ("exc", e.kind)
    if m[0] != getter[0] or (m[0] == "exc" and m[1] != getter[1]) or (m[0] == "ok" and m[1] != getter[1]):
        ctx.disagree("b.radiusof", case, ["ball getter", ball[:2], "radius getter", getter, "model", m])


def same_result(a, t):
    if a[0] != t[0]:
        return False
    if a[0] == "exc":
        return a[1] == t[1]
    return a[1] == t[1] and bool(np.array_equal(a[2], t[2])) and a[3] == t[3]


def check_glue(ctx, case, cls, p, aliases, not_implemented):
    """deprecated aliases return what the new getter returns; getters the class does not override raise
    NotImplementedError (model: `deprecatedAlias`, `notImplemented`), and the `_radius` getters follow (`radiusOf`)."""
    for alias, target in aliases:
        a = call(lambda: getattr(p, alias))
        t = call(lambda: getattr(p, target))
        ctx.count("glue:alias")
        if not same_result(a, t):
            ctx.fail("%s.%s:alias" % (cls, alias), "the deprecated alias differs from " + target, case, [a[:3], t[:3]])
    for attr in not_implemented:
        b = call(lambda: getattr(p, attr))
        rg = call_scalar(lambda: getattr(p, attr + "_radius"))
        ctx.count("glue:not-implemented")
        if b[0] != "exc" or b[1] != "NotImplementedError":
            ctx.disagree("b.notimplemented:%s.%s" % (cls, attr), case, b[:2])
        check_radiusof(ctx, case, b, rg)


# =========================================================================== solids


def eval_polyhedron(ctx, case):
    from coxeter.shapes import ConvexPolyhedron, Polyhedron
    v = np.array(case["vertices"], dtype=float)
    faces = case.get("faces")
    with warnings.catch_warnings():
        warnings.simplefilter("ignore")
        try:
            p = ConvexPolyhedron(v) if faces is None else Polyhedron(v, [np.array(f) for f in faces], faces_are_convex=True)
        except Exception as e:  # noqa: BLE001
            ctx.count("ctor-raised:" + exc_kind(e))
            return
    convex = faces is None
    cls = "ConvexPolyhedron" if convex else "Polyhedron"
    verts = np.array(p.vertices, dtype=float)
    d = gen.diameter(verts)
    Ls = d + float(np.linalg.norm(verts.mean(axis=0)))
    if convex:
        center = np.array(p.center, dtype=float)
        c_ind = solid_centroid(verts)
        # ------------------------------------------------ minimal centred bounding sphere
        impl = call(lambda: p.minimal_centered_bounding_sphere)
        mod = model(ctx, "b.mincb", L(list(verts)), center)
        compare(ctx, "b.mincb", case, impl, mod, Ls)
        if impl[0] == "ok":
            r, c = impl[1], impl[2]
            if not ctx.close_enough(c, c_ind, Ls, 1e-7):
                ctx.fail(cls + ".minimal_centered_bounding_sphere:centre", "not centred at the centroid", case, [c, c_ind])
            q = float(ctx.driver.Q("s.maxdistsq", L(list(verts)), c)[0])
            if abs(r * r - q) > 1e-9 * Ls * d:
                ctx.fail(cls + ".minimal_centered_bounding_sphere:radius",
                         "radius is not the largest centre-vertex distance", case, [r, np.sqrt(q)])
            rg = call_scalar(lambda: p.minimal_centered_bounding_sphere_radius)
            if rg[0] != "ok" or not ctx.close_enough(rg[1], r, Ls, 1e-12):
                ctx.fail(cls + ".minimal_centered_bounding_sphere_radius:getter", "getter disagrees", case, [r, rg])
        else:
            ctx.fail(cls + ".minimal_centered_bounding_sphere:raises", "raised %s" % impl[1], case, impl[2])
        # ------------------------------------------------ maximal centred bounded sphere
        eqs = np.array(p.equations, dtype=float)
        impl = call(lambda: p.maximal_centered_bounded_sphere)
        mod = model(ctx, "b.maxcbs", L([e for e in eqs]), center)
        compare(ctx, "b.maxcbs", case, impl, mod, Ls)
        planes = unique_planes(verts)
        if impl[0] == "ok":
            r, c = impl[1], impl[2]
            off = planes[:, :3] @ c + planes[:, 3]
            if not ctx.close_enough(c, c_ind, Ls, 1e-7):
                ctx.fail(cls + ".maximal_centered_bounded_sphere:centre", "not centred at the centroid", case, [c, c_ind])
            if float(np.max(off + r)) > 1e-8 * Ls:
                ctx.fail(cls + ".maximal_centered_bounded_sphere:inside", "the ball is not inside the solid", case,
                         [float(np.max(off + r)), r])
            elif float(np.max(off + r)) < -1e-8 * Ls:
                ctx.fail(cls + ".maximal_centered_bounded_sphere:touches", "the ball does not touch the nearest face",
                         case, [float(np.max(off + r)), r])
            rg = call_scalar(lambda: p.maximal_centered_bounded_sphere_radius)
            if rg[0] != "ok" or not ctx.close_enough(rg[1], r, Ls, 1e-12):
                ctx.fail(cls + ".maximal_centered_bounded_sphere_radius:getter", "getter disagrees", case, [r, rg])
        else:
            ctx.fail(cls + ".maximal_centered_bounded_sphere:raises", "raised %s for a convex solid" % impl[1], case, impl[2])
        check_glue(ctx, case, cls, p,
                   [("insphere_from_center", "maximal_centered_bounded_sphere"),
                    ("circumsphere_from_center", "minimal_centered_bounding_sphere")],
                   ["maximal_bounded_sphere"])
    else:
        check_glue(ctx, case, cls, p, [],
                   ["maximal_bounded_sphere", "minimal_centered_bounding_sphere", "maximal_centered_bounded_sphere"])
    # ---------------------------------------------------- circumsphere
    check_circum(ctx, case, cls, "circumsphere", p, verts, None, Ls, d)
    # ---------------------------------------------------- insphere
    if convex:
        normals = np.array(p.normals, dtype=float)
        firsts = verts[[int(f[0]) for f in p.faces]]
        planes = unique_planes(verts)
        pairs = L([np.r_[n, fv] for n, fv in zip(normals, firsts)])
        check_in(ctx, case, cls, "insphere", p, verts, Ls, d,
                 (planes[:, :3], planes[:, 3]) if len(planes) == len(normals) else None,
                 lambda: ctx.driver.F("b.insys", pairs, L(list(verts))),
                 lambda x, r, res: model(ctx, "b.insphere", L(list(verts)), x, r, L(list(res))))
        if len(planes) != len(normals):
            ctx.count("insphere:oracle-skipped(face count differs from hull planes; C07)")
    # ---------------------------------------------------- minimal bounding sphere
    check_minimal_bounding(ctx, case, cls, "minimal_bounding_sphere", p, verts, Ls, d,
                           int(case.get("fail_first", 0)), int(case.get("seed", 0)))
    exact_box_ball(ctx, case, cls, p, verts, Ls)


def exact_box_ball(ctx, case, cls, p, verts, Ls):
    """integer boxes: centre (half-integers) and r^2 are exact doubles, the support certificate (weights 1/2 on two
    opposite corners) is verified by the EXACT checker `certExact` over Q (Lean: `miniball_checker_sound`), and the
    implementation's ball is compared with that exact optimum."""
    if not (case.get("lattice") and len(verts) == 8 and np.all(verts == np.round(verts))):
        return
    lo, hi = verts.min(axis=0), verts.max(axis=0)
    corners = {tuple(v) for v in verts.tolist()}
    if corners != {(x, y, z) for x in (lo[0], hi[0]) for y in (lo[1], hi[1]) for z in (lo[2], hi[2])} or np.any(hi == lo):
        return
    c = (lo + hi) / 2
    r2 = float(np.sum(((hi - lo) / 2) ** 2))
    ok = bool(ctx.driver.Q("s.certexact", L(list(verts)), c, r2, L([np.r_[0.5, lo], np.r_[0.5, hi]]))[0])
    ctx.count("miniball:exact-checker(certExact over Q):" + ("accepts" if ok else "REJECTS"))
    if not ok:
        ctx.fail("oracle:self-check", "the exact certificate of an integer box was rejected", case, [c, r2])
        return
    seed_globals(int(case.get("seed", 0)))
    b = call(lambda: p.minimal_bounding_sphere)
    if b[0] == "ok" and not (ctx.close_enough(b[1] ** 2, r2, r2, 1e-9) and ctx.close_enough(b[2], c, Ls, 1e-9)):
        # (a ball that misses vertices is the known finding and has been reported above)
        u = float(np.max(np.sum((verts - b[2]) ** 2, axis=1)))
        if u <= b[1] ** 2 * (1 + MB_REL):
            ctx.fail(cls + ".minimal_bounding_sphere:value:exact-box", "differs from the exactly certified minimal ball",
                     case, [b[1], b[2], np.sqrt(r2), c])


# =========================================================================== polygons


def eval_polygon(ctx, case):
    from coxeter.shapes import ConvexPolygon, Polygon
    v = np.array(case["vertices"], dtype=float)
    normal = case.get("normal")
    clsname = case.get("cls", "Polygon")
    klass = ConvexPolygon if clsname == "ConvexPolygon" else Polygon
    with warnings.catch_warnings():
        warnings.simplefilter("ignore")
        try:
            p = klass(v, normal=None if normal is None else np.array(normal, dtype=float))
        except Exception as e:  # noqa: BLE001
            ctx.count("ctor-raised:" + exc_kind(e))
            return
    verts = np.array(p.vertices, dtype=float)
    pn = np.array(p.normal, dtype=float)
    d = gen.diameter(verts)
    Ls = d + float(np.linalg.norm(verts.mean(axis=0)))
    fr = plane_frame(verts)
    p2 = to2d(verts, fr)
    convex = is_convex2d(p2)
    c2, area2 = polygon_centroid2d(p2)
    c_ind = fr[0] + c2[0] * fr[1] + c2[1] * fr[2]
    if clsname == "ConvexPolygon" and convex:
        center = np.array(p.center, dtype=float)
        impl = call(lambda: p.minimal_centered_bounding_circle)
        mod = model(ctx, "b.mincb", L(list(verts)), center)
        compare(ctx, "b.mincb", case, impl, mod, Ls)
        if impl[0] == "ok":
            r, c = impl[1], impl[2]
            if not ctx.close_enough(c, c_ind, Ls, 1e-7):
                ctx.fail("ConvexPolygon.minimal_centered_bounding_circle:centre", "not centred at the centroid", case, [c, c_ind])
            q = float(ctx.driver.Q("s.maxdistsq", L(list(verts)), c)[0])
            if abs(r * r - q) > 1e-9 * Ls * d:
                ctx.fail("ConvexPolygon.minimal_centered_bounding_circle:radius",
                         "radius is not the largest centre-vertex distance", case, [r, np.sqrt(q)])
            rg = call_scalar(lambda: p.minimal_centered_bounding_circle_radius)
            if rg[0] != "ok" or not ctx.close_enough(rg[1], r, Ls, 1e-12):
                ctx.fail("ConvexPolygon.minimal_centered_bounding_circle_radius:getter", "getter disagrees", case, [r, rg])
        else:
            ctx.fail("ConvexPolygon.minimal_centered_bounding_circle:raises", "raised %s" % impl[1], case, impl[2])
        impl = call(lambda: p.maximal_centered_bounded_circle)
        mod = model(ctx, "b.maxcbc", L(list(verts)), center)
        compare(ctx, "b.maxcbc", case, impl, mod, Ls)
        if impl[0] == "ok":
            r, c = impl[1], impl[2]
            r_or = min(seg_dist(c_ind, verts[i], verts[(i + 1) % len(verts)]) for i in range(len(verts)))
            if not ctx.close_enough(c, c_ind, Ls, 1e-7):
                ctx.fail("ConvexPolygon.maximal_centered_bounded_circle:centre", "not centred at the centroid", case, [c, c_ind])
            if r > r_or + 1e-7 * Ls:
                ctx.fail("ConvexPolygon.maximal_centered_bounded_circle:inside", "the circle crosses an edge", case, [r, r_or])
            elif r < r_or - 1e-7 * Ls:
                ctx.fail("ConvexPolygon.maximal_centered_bounded_circle:touches", "the circle does not touch the nearest edge",
                         case, [r, r_or])
            rg = call_scalar(lambda: p.maximal_centered_bounded_circle_radius)
            if rg[0] != "ok" or not ctx.close_enough(rg[1], r, Ls, 1e-12):
                ctx.fail("ConvexPolygon.maximal_centered_bounded_circle_radius:getter", "getter disagrees", case, [r, rg])
        else:
            ctx.fail("ConvexPolygon.maximal_centered_bounded_circle:raises", "raised %s" % impl[1], case, impl[2])
        check_glue(ctx, case, "ConvexPolygon", p, [("incircle_from_center", "maximal_centered_bounded_circle")],
                   ["maximal_bounded_circle"])
    elif clsname != "ConvexPolygon":
        # the centred balls are defined through distances to edge LINES, which is right only for convex polygons:
        # the general Polygon does not offer them
        check_glue(ctx, case, "Polygon", p, [],
                   ["maximal_bounded_circle", "minimal_centered_bounding_circle", "maximal_centered_bounded_circle"])
    # ---------------------------------------------------- circumcircle
    check_circum(ctx, case, "Polygon", "circumcircle", p, verts, pn, Ls, d)
    # ---------------------------------------------------- incircle
    planes = None
    if convex:
        sgn = 1.0 if area2 > 0 else -1.0
        e2 = np.roll(p2, -1, axis=0) - p2
        n2 = sgn * np.c_[e2[:, 1], -e2[:, 0]]
        n2 /= np.linalg.norm(n2, axis=1)[:, None]
        N = n2[:, :1] * fr[1][None, :] + n2[:, 1:2] * fr[2][None, :]
        D = -np.sum(N * verts, axis=1)
        planes = (N, D)
    sa = call_scalar(lambda: p.signed_area)
    if sa[0] == "ok":
        check_in(ctx, case, "Polygon", "incircle", p, verts, Ls, d, planes,
                 lambda: ctx.driver.F("b.insysc", L(list(verts)), pn, sa[1]),
                 lambda x, r, res: model(ctx, "b.incircle", L(list(verts)), x, r, L(list(res))),
                 in_plane=fr)
    # ---------------------------------------------------- minimal bounding circle
    check_minimal_bounding(ctx, case, "Polygon", "minimal_bounding_circle", p, verts, Ls, d,
                           int(case.get("fail_first", 0)), int(case.get("seed", 0)))


# =========================================================================== curved shapes


def eval_curved(ctx, case):
    from coxeter import shapes
    kind = case["kind"]
    ax = [float(t) for t in case["axes"]]
    cen = np.array(case["center"], dtype=float)
    try:
        s = getattr(shapes, kind)(*ax, cen)
    except Exception as e:  # noqa: BLE001
        ctx.fail(kind + ".__init__:raises", "constructor raised %s" % exc_kind(e), case, repr(e))
        return
    two = kind in ("Circle", "Ellipse")
    suffix = "circle" if two else "sphere"
    big, small = max(ax), min(ax)
    try:
        if kind in ("Circle", "Sphere"):
            m = ctx.driver.F("b.round", ax[0], cen)
            m = m + m
        elif kind == "Ellipse":
            m = ctx.driver.F("b.ellipse", ax[0], ax[1], cen)
        else:
            m = ctx.driver.F("b.ellipsoid", ax[0], ax[1], ax[2], cen)
        mod_b = ("ok", m[0], np.array(m[1:4]))
        mod_s = ("ok", m[4], np.array(m[5:8]))
    except ModelRaise as e:
        mod_b = mod_s = ("exc", e.kind)
    getters = [("minimal_bounding_", big, mod_b), ("minimal_centered_bounding_", big, mod_b),
               ("maximal_bounded_", small, mod_s), ("maximal_centered_bounded_", small, mod_s)]
    for name, expect, mod in getters:
        attr = name + suffix
        impl = call(lambda: getattr(s, attr))
        compare(ctx, "b." + kind.lower() + ":" + attr, case, impl, mod, 1.0, tol=0.0)
        sig = "%s.%s" % (kind, attr)
        if impl[0] != "ok":
            ctx.fail(sig + ":missing" if impl[1] in ("AttributeError", "NotImplementedError") else sig + ":raises",
                     "getter raised %s" % impl[1], case, impl[2])
            continue
        if impl[1] != expect or not np.array_equal(impl[2], cen):
            ctx.fail(sig + ":value", "ball is not the one with the %s semi-axis about the centre"
                     % ("largest" if expect == big else "smallest"), case, [impl[1], expect, impl[2], cen])
        if impl[3] != ("Circle" if two else "Sphere"):
            ctx.fail(sig + ":type", "wrong result class", case, impl[3])
        rg = call_scalar(lambda: getattr(s, attr + "_radius"))
        if rg[0] != "ok" or rg[1] != impl[1]:
            ctx.fail(sig + "_radius:getter", "getter disagrees", case, [impl[1], rg])
        check_radiusof(ctx, case, impl, rg)
    if kind == "Circle":
        check_glue(ctx, case, "Circle", s, [("maximal_bounding_circle", "maximal_bounded_circle")], [])
    # sampled definition: boundary points lie in the bounding ball and outside/on the bounded ball
    t = np.linspace(0, 2 * np.pi, 17)[:-1]
    if two:
        a, b = (ax[0], ax[0]) if kind == "Circle" else ax
        bd = np.c_[a * np.cos(t), b * np.sin(t), np.zeros_like(t)]
    else:
        a, b, c = (ax[0],) * 3 if kind == "Sphere" else ax
        u = np.linspace(0.1, 3.0, 16)
        bd = np.c_[a * np.cos(t) * np.sin(u), b * np.sin(t) * np.sin(u), c * np.cos(u)]
    rad = np.linalg.norm(bd, axis=1)
    if np.any(rad > big * (1 + 1e-12)) or np.any(rad < small * (1 - 1e-12)):
        ctx.fail("oracle:self-check", "semi-axis bounds do not bracket the boundary samples", case, [big, small])


# =========================================================================== generators


def _regular_prism(n, h):
    base = gen.ngon(n)
    return np.vstack([np.c_[base, -h / 2 * np.ones(n)], np.c_[base, h / 2 * np.ones(n)]])


def special_solid(rng):
    """(name, vertices) of a solid whose cyclic / tangential character is known by construction."""
    k = int(rng.integers(12))
    n = int(rng.integers(3, 9))
    if k == 0:
        e = np.round(np.exp(rng.uniform(-1, 1, size=3)) * 8) / 8
        return "box", np.array([[x, y, z] for x in (0, 1) for y in (0, 1) for z in (0, 1)], dtype=float) * e
    if k == 1:
        return "cube", np.array([[x, y, z] for x in (0, 1) for y in (0, 1) for z in (0, 1)], dtype=float)
    if k == 2:
        return "prism-tangential", _regular_prism(n, 2 * np.cos(np.pi / n))
    if k == 3:
        return "prism", _regular_prism(n, float(np.exp(rng.uniform(-1, 1))) + 2.5)
    if k == 4:
        h = float(np.exp(rng.uniform(-1, 1)))
        return "antiprism", np.vstack([np.c_[gen.ngon(n), -h * np.ones(n)], np.c_[gen.ngon(n, phase=np.pi / n), h * np.ones(n)]])
    if k == 5:
        return "pyramid", np.vstack([np.c_[gen.ngon(n), np.zeros(n)], [[0, 0, float(np.exp(rng.uniform(-1, 1)))]]])
    if k == 6:
        h1, h2 = np.exp(rng.uniform(-1, 1, size=2))
        return "dipyramid", np.vstack([np.c_[gen.ngon(n), np.zeros(n)], [[0, 0, h1]], [[0, 0, -h2]]])
    if k == 7:
        return "dipyramid-noncospherical", np.array([[0, 0, 0], [1, 0, 0], [0, 1, 0], [0, 0, 1], [2 / 3, 2 / 3, 2 / 3]])
    if k == 8:
        return "tetrahedron", rng.normal(size=(4, 3))
    if k == 9:
        # points on a sphere: cyclic, generically not tangential
        m = int(rng.integers(5, 30))
        q = rng.normal(size=(m, 3))
        return "on-sphere", q / np.linalg.norm(q, axis=1)[:, None]
    if k == 10:
        # polar dual of points on a sphere: tangential, generically not cyclic
        from scipy.spatial import ConvexHull
        m = int(rng.integers(5, 16))
        q = rng.normal(size=(m, 3))
        q /= np.linalg.norm(q, axis=1)[:, None]
        h = ConvexHull(q)
        if np.min(-h.equations[:, 3]) < 0.15:
            return "cube", np.array([[x, y, z] for x in (0, 1) for y in (0, 1) for z in (0, 1)], dtype=float)
        # vertices of the dual of {x : q_i.x <= 1}: facets of hull(q) -> points n/(-d)
        pts = h.equations[:, :3] / (-h.equations[:, 3])[:, None]
        return "tangential-dual", np.unique(np.round(pts, 12), axis=0)
    e = np.array([1.0, 1.0, float(1 + 0.1 * rng.integers(1, 6))])
    return "box-near-cube", np.array([[x, y, z] for x in (0, 1) for y in (0, 1) for z in (0, 1)], dtype=float) * e


def lattice_solid(rng):
    """integer-valued vertices (exact Fractions oracle): boxes, lattice polytopes, zonotopes; integer offset."""
    k = int(rng.integers(3))
    if k == 0:
        e = rng.integers(1, 6, size=3).astype(float)
        v = np.array([[x, y, z] for x in (0, 1) for y in (0, 1) for z in (0, 1)], dtype=float) * e
    elif k == 1:
        _, v = gen.convex_base(rng, "lattice")
    else:
        _, v = gen.convex_base(rng, "zonotope")
    v = np.round(v) + rng.integers(-20, 21, size=3)
    return v[rng.permutation(len(v))]


def nonconvex_solid(rng, cospherical):
    """simplicial hull of random points; either one vertex pushed inwards (dent) or, with all vertices on a sphere,
    one edge flipped (same vertex set, concave surface). Returns (vertices, faces) or None."""
    from coxeter.shapes import ConvexPolyhedron
    m = int(rng.integers(6, 16))
    q = rng.normal(size=(m, 3))
    q /= np.linalg.norm(q, axis=1)[:, None]
    if not cospherical:
        q *= rng.uniform(0.92, 1.08, size=(m, 1))
    try:
        with warnings.catch_warnings():
            warnings.simplefilter("ignore")
            cp = ConvexPolyhedron(q)
    except ValueError:
        return None
    faces = [list(map(int, f)) for f in cp.faces]
    if any(len(f) != 3 for f in faces) or len(cp.vertices) != m:
        return None
    v = np.array(cp.vertices, dtype=float)
    if not cospherical:
        i = int(rng.integers(m))
        v[i] = v[i] * 0.45 + 0.55 * v.mean(axis=0)
        return v, faces
    # flip the edge shared by faces 0 and its neighbour
    f0 = faces[0]
    for j in range(1, len(faces)):
        sh = [t for t in faces[j] if t in f0]
        if len(sh) == 2:
            a, b = sh
            c0 = [t for t in f0 if t not in sh][0]
            c1 = [t for t in faces[j] if t not in sh][0]
            ia = f0.index(a)
            if f0[(ia + 1) % 3] != b:
                a, b = b, a
            # f0 = (a, b, c0) ccw, fj = (b, a, c1) ccw  ->  (a, c1, c0), (c1, b, c0)
            faces[0] = [a, c1, c0]
            faces[j] = [c1, b, c0]
            return v, faces
    return None


def special_polygon2d(rng):
    k = int(rng.integers(11))
    n = int(rng.integers(3, 13))
    if k == 0:
        return "regular", gen.ngon(n, phase=float(rng.uniform(0, 1)))
    if k == 1:
        w, h = 2.0, 1.0
        return "rect-2x1", np.array([[0, 0], [w, 0], [w, h], [0, h]])
    if k == 2:
        w, h = np.round(np.exp(rng.uniform(-1, 1, size=2)) * 16) / 16 + np.array([0.0, 0.25])
        return "rect", np.array([[0, 0], [w, 0], [w, h], [0, h]])
    if k == 3:
        return "square", np.array([[0, 0], [1, 0], [1, 1], [0, 1.0]])
    if k == 4:
        a, b, c = rng.uniform(0.4, 1.5, size=3)
        return "kite", np.array([[0, -a], [b, 0], [0, c + a * 0.3], [-b, 0]])
    if k == 5:
        a, b = rng.uniform(0.4, 1.5, size=2)
        return "rhombus", np.array([[a + 0.5, 0], [0, b], [-a - 0.5, 0], [0, -b]])
    if k == 6:
        a, b, h = rng.uniform(0.4, 1.5, size=3)
        return "isosceles-trapezoid", np.array([[-a - 0.6, 0], [a + 0.6, 0], [b * 0.5, h], [-b * 0.5, h]])
    if k in (7, 8):
        m = max(n, 4) if k == 8 else n + 1
        for _ in range(50):
            gaps = 0.3 + rng.uniform(0, 1, size=m)
            gaps *= 2 * np.pi / gaps.sum()
            if np.max(gaps) < 2.4:
                break
        else:
            return "regular", gen.ngon(n)
        t = float(rng.uniform(0, 2 * np.pi)) + np.cumsum(gaps)
        if k == 7:
            return "cyclic", np.c_[np.cos(t), np.sin(t)]
        # tangential: intersect consecutive tangent lines of the unit circle (touching at angles t)
        mid = t + np.roll(gaps, -1) / 2
        return "tangential", np.c_[np.cos(mid), np.sin(mid)] / np.cos(np.roll(gaps, -1) / 2)[:, None]
    if k == 9:
        return "triangle", rng.uniform(-1, 1, size=(3, 2))
    return "quad-irregular", np.array([[0, 0], [2, 0], [3, 2], [0, 1.0]])


def make_polyhedron_case(rng, ctx, mode):
    seed = int(rng.integers(2 ** 31))
    if mode == "c01":
        v, info = gen.convex_solid(rng)
        info = dict(info)
        return {"family": "polyhedron", "vertices": v.tolist(), "info": info, "seed": seed}
    if mode == "lattice":
        v = lattice_solid(rng)
        if not gen.in_convex_position(v):
            return None
        return {"family": "polyhedron", "vertices": v.tolist(), "lattice": True,
                "info": {"kind": "lattice-exact", "scale": 1.0, "rotated": False}, "seed": seed}
    if mode == "special":
        name, v = special_solid(rng)
        v, info = gen.place(rng, v)
        if not gen.in_convex_position(v):
            return None
        info = dict(info, kind="special:" + name)
        return {"family": "polyhedron", "vertices": v.tolist(), "info": info, "seed": seed}
    if mode == "nonconvex":
        co = bool(rng.random() < 0.5)
        r = nonconvex_solid(rng, co)
        if r is None:
            return None
        v, faces = r
        v2, info = gen.place(rng, v, permute=False)
        info = dict(info, kind="nonconvex:" + ("edge-flip-cospherical" if co else "dent"))
        return {"family": "polyhedron", "vertices": v2.tolist(), "faces": faces, "info": info, "seed": seed}
    if mode == "xscale":
        # exact power-of-two scalings far outside 1e-3..1e3: existence decisions must not depend on the unit of length
        name, v = special_solid(rng)
        k = int(rng.integers(-14, 15))
        v = np.asarray(v, dtype=float)[rng.permutation(len(v))] * (2.0 ** k)
        if not gen.in_convex_position(v):
            return None
        return {"family": "polyhedron", "vertices": v.tolist(), "seed": seed,
                "info": {"kind": "xscale:" + name, "scale": 2.0 ** k, "rotated": False}}
    raise ValueError(mode)


def make_polygon_case(rng, ctx, mode):
    seed = int(rng.integers(2 ** 31))
    if mode == "xscale":
        kind, p2 = special_polygon2d(rng)
        p2 = np.asarray(p2, dtype=float)
        a2 = float(np.sum(p2[:, 0] * np.roll(p2[:, 1], -1) - np.roll(p2[:, 0], -1) * p2[:, 1]))
        if a2 < 0:
            p2 = p2[::-1].copy()
        u = rng.random()                         # sizes 1e-9 .. 1e9, the extremes over-represented
        k = int(rng.integers(-30, -19)) if u < 0.4 else int(rng.integers(20, 31)) if u < 0.6 else int(rng.integers(-30, 31))
        v = np.c_[p2, np.zeros(len(p2))] * (2.0 ** k)
        if rng.random() < 0.7:
            # also in a tilted plane and a few sizes away from the origin (the scaling stays an exact power of two)
            import rowan
            v = v @ rowan.to_matrix(rowan.normalize(rng.normal(size=4))).T + rng.uniform(-3, 3, size=3) * (2.0 ** k)
        return {"family": "polygon", "vertices": v.tolist(), "normal": None, "cls": "Polygon", "seed": seed,
                "info": {"kind": "xscale:" + kind, "scale": 2.0 ** k, "orient": "default", "plane": "xy", "n": len(v)}}
    if mode == "c04":
        kind, p2 = gen.polygon2d(rng)
    else:
        kind, p2 = special_polygon2d(rng)
        kind = "special:" + kind
    p2 = np.asarray(p2, dtype=float)
    a2 = float(np.sum(p2[:, 0] * np.roll(p2[:, 1], -1) - np.roll(p2[:, 0], -1) * p2[:, 1]))
    if a2 < 0:
        p2 = p2[::-1].copy()
    scale = 1.0 if rng.random() < 0.6 else float(10 ** rng.uniform(-3, 3))
    v, frm = gen.embed_polygon(rng, p2, plane="xy" if rng.random() < 0.3 else "random", scale=scale)
    n = np.array(frm["n"], dtype=float)
    orient = ["default", "explicit", "cw-about-normal", "reversed-default"][int(rng.integers(4))]
    normal = None
    if orient == "explicit":
        normal = n.tolist()
    elif orient == "cw-about-normal":
        normal = (-n).tolist()
    elif orient == "reversed-default":
        v = v[::-1].copy()
    cls = "ConvexPolygon" if (is_convex2d(p2) and rng.random() < 0.5) else "Polygon"
    return {"family": "polygon", "vertices": v.tolist(), "normal": normal, "cls": cls,
            "info": {"kind": kind, "scale": scale, "orient": orient, "plane": frm["plane"],
                     "offset_diams": frm["offset_diams"], "n": len(v)}, "seed": seed}


def make_curved_case(rng, ctx):
    kind = ["Circle", "Ellipse", "Sphere", "Ellipsoid"][int(rng.integers(4))]
    na = {"Circle": 1, "Ellipse": 2, "Sphere": 1, "Ellipsoid": 3}[kind]
    ax = (10 ** rng.uniform(-3, 3, size=na)).tolist()
    tie = "none"
    if na > 1 and rng.random() < 0.35:
        i, j = rng.choice(na, size=2, replace=False)
        if rng.random() < 0.5:
            ax[j] = ax[i]
            tie = "exact"
        else:
            ax[j] = ax[i] * (1 + float(10 ** rng.uniform(-15, -3)))
            tie = "near"
    cen = rng.uniform(-5, 5, size=3)
    return {"family": "curved", "kind": kind, "axes": ax, "center": cen.tolist(), "info": {"tie": tie}}


PRISM3_ROT = [[0.9999999999999998, 0.4999999999999999, 0.0], [-0.49999999999999967, 0.4999999999999999, 0.8660254037844385],
              [-0.5000000000000003, 0.49999999999999994, -0.8660254037844382], [0.9999999999999998, -0.4999999999999999, 0.0],
              [-0.49999999999999967, -0.4999999999999999, 0.8660254037844385],
              [-0.5000000000000003, -0.49999999999999994, -0.8660254037844382]]


def make_sweep_case(rng, ctx, nseeds):
    """one cospherical vertex set (where Welzl's recursion inside `miniball` meets degenerate supports) in a random
    rigid placement, evaluated under many states of Python's global `random` (which `miniball` draws its pivots from)."""
    import rowan
    k = int(rng.integers(12))
    n = int(rng.integers(3, 9))
    shape = "polyhedron"
    if k >= 10:
        # many cospherical vertices: every attempt of miniball fails with probability ~0.3-0.5 (LinAlgError)
        m = int(rng.integers(25, 61))
        if k == 10:
            name, v = "prism-large", _regular_prism(m, 2 * np.sin(np.pi / m))
        else:
            shape, name = "polygon", "ngon-large"
            v = np.c_[gen.ngon(m), np.zeros(m)]
    elif k >= 8:
        # generic (non-cospherical) prism over a polygon inscribed in an ellipse: miniball was seen to return
        # containing but NOT minimal balls here (about 1 call in 1500)
        m = int(rng.integers(5, 13))
        t = 2 * np.pi * np.arange(m) / m + float(rng.uniform(0, 1))
        a, b, h = np.exp(rng.uniform(-1, 1, size=3))
        base = np.c_[a * np.cos(t), b * np.sin(t)]
        name, v = "elliptic-prism", np.vstack([np.c_[base, -h / 2 * np.ones(m)], np.c_[base, h / 2 * np.ones(m)]])
    elif k == 0:
        name, v = "prism", _regular_prism(n, float(np.exp(rng.uniform(-1, 1))))
    elif k == 1:
        name, v = "prism3", _regular_prism(3, float(np.exp(rng.uniform(-1, 1))))
    elif k == 2:
        name, v = "box", np.array([[x, y, z] for x in (0, 1) for y in (0, 1) for z in (0, 1)], dtype=float) \
            * np.exp(rng.uniform(-1, 1, size=3))
    elif k == 3:
        h = float(np.exp(rng.uniform(-1, 1)))
        name, v = "antiprism", np.vstack([np.c_[gen.ngon(n), -h * np.ones(n)],
                                          np.c_[gen.ngon(n, phase=np.pi / n), h * np.ones(n)]])
    elif k == 4:
        tabs = [t for t in gen.tabulated_solids() if t[0] in ("platonic", "archimedean", "prism_antiprism")
                and len(t[2]) <= 30]
        fam, nm, v = tabs[int(rng.integers(len(tabs)))]
        name = "tabulated:" + fam
    elif k == 5:
        shape, name = "polygon", "regular-ngon"
        v = np.c_[gen.ngon(max(n, 4), phase=float(rng.uniform(0, 1))), np.zeros(max(n, 4))]
    elif k == 6:
        shape, name = "polygon", "rectangle"
        w, h = np.exp(rng.uniform(-1, 1, size=2))
        v = np.array([[0, 0, 0], [w, 0, 0], [w, h, 0], [0, h, 0]])
    else:
        shape, name = "polygon", "cyclic"
        t = np.sort(rng.uniform(0, 2 * np.pi, size=n + 2))
        v = np.c_[np.cos(t), np.sin(t), np.zeros(len(t))]
    v = np.asarray(v, dtype=float)
    mode = int(rng.integers(3))
    if mode == 0:
        q = np.array([1.0, 0, 0, 0])
    elif mode == 1:
        ax = np.eye(3)[int(rng.integers(3))]
        q = np.r_[np.cos(np.pi / 4), np.sin(np.pi / 4) * ax]           # quarter turn about a coordinate axis
    else:
        q = rng.normal(size=4)
        q /= np.linalg.norm(q)
    v = rowan.rotate(q, v) * float(10 ** rng.uniform(-1, 1) if rng.random() < 0.3 else 1.0) \
        + (rng.uniform(-2, 2, size=3) if rng.random() < 0.5 else 0.0)
    if shape == "polyhedron" and not gen.in_convex_position(v):
        return None
    return {"family": "sweep", "shape": shape, "vertices": v.tolist(),
            "seeds": [int(t) for t in rng.integers(2 ** 31, size=nseeds)],
            "info": {"kind": "sweep:" + name, "rotation": ["none", "quarter-turn", "random"][mode]}}


def eval_sweep(ctx, case):
    from coxeter.shapes import ConvexPolyhedron, Polygon
    v = np.array(case["vertices"], dtype=float)
    three = case["shape"] == "polyhedron"
    with warnings.catch_warnings():
        warnings.simplefilter("ignore")
        try:
            p = ConvexPolyhedron(v) if three else Polygon(v)
        except Exception as e:  # noqa: BLE001
            ctx.count("ctor-raised:" + exc_kind(e))
            return
    verts = np.array(p.vertices, dtype=float)
    attr = "minimal_bounding_sphere" if three else "minimal_bounding_circle"
    opt = oracle_minball(ctx, verts)
    if opt is None or opt[2] - opt[1] > 1e-9 * opt[2]:
        ctx.count("sweep:oracle-unavailable")
        return
    hits = 0
    for seed in case["seeds"]:
        seed_globals(seed)
        res = call(lambda: getattr(p, attr))
        ctx.count("sweep:calls")
        if res[0] == "ok":
            r2 = res[1] ** 2
            u = float(np.max(np.sum((verts - res[2]) ** 2, axis=1)))
            if u <= r2 * (1 + MB_REL / 2) and r2 <= opt[1] * (1 + MB_REL / 2):
                continue
        if res[0] != "ok":
            ctx.count("sweep:%s:%s" % (res[1], case["info"]["kind"].split(":", 1)[1]))
        # anything else: the full evaluation of this (vertices, seed) as a case of its own (replayable)
        hits += 1
        if hits > 3:
            continue
        sub = {"family": "polyhedron" if three else "polygon", "vertices": verts.tolist(), "seed": int(seed),
               "info": {"kind": "sweep-hit:" + case["info"]["kind"].split(":", 1)[1]}}
        if not three:
            sub.update({"normal": None, "cls": "Polygon"})
        ctx.case(sub)
        ctx.count("sweep:hits")
        eval_case(ctx, sub)


NEAR_EPS = [1e-6, 1e-5, 1e-4, 3e-4, 1e-3, 2e-3, 3.4e-3, 5e-3, 1e-2, 3e-2, 1e-1]


def make_near_tangential_case(rng, ctx, family, eps=None, offset=None, shape=None, stress=False):
    """NEARLY tangential shapes: a tangential polygon / polyhedron spoilt by a relative eps (rectangle a x a(1+eps),
    kite with one vertex pushed out, box a x a x a(1+eps), tangential prism with height (1+eps)), rigidly placed at
    0, 1 or 10 diameters from the origin (stress: 1e2..1e4, outside the property's quantifier). The existence
    decision must not depend on the placement: no in-ball by a clear relative margin => RuntimeError everywhere."""
    import rowan
    seed = int(rng.integers(2 ** 31))
    eps = float(NEAR_EPS[int(rng.integers(len(NEAR_EPS)))]) if eps is None else float(eps)
    if offset is None:
        offset = float([1e2, 1e3, 1e4][int(rng.integers(3))]) if stress else float([0, 1, 10][int(rng.integers(3))])
    a = float(np.exp(rng.uniform(-0.5, 0.5)))
    rot = rowan.to_matrix(rowan.normalize(rng.normal(size=4))) if rng.random() < 0.75 else np.eye(3)
    direction = rng.normal(size=3)
    direction /= np.linalg.norm(direction)
    kindp = "stress-far" if stress else "near-tangential"
    if family == "polygon":
        shape = shape or ["rect", "kite"][int(rng.integers(2))]
        if shape == "rect":
            p2 = np.array([[0, 0], [a * (1 + eps), 0], [a * (1 + eps), a], [0, a]])
        else:
            b, c = rng.uniform(0.5, 1.5, size=2)
            p2 = np.array([[0, -a], [b * (1 + eps), 0], [0, c], [-b, 0]])
        v = np.c_[p2, np.zeros(len(p2))] @ rot.T
        d = gen.diameter(v)
        v = v + direction * offset * d
        n = rot[:, 2]
        orient = ["default", "explicit", "cw-about-normal", "reversed-default"][int(rng.integers(4))]
        normal = None
        if orient == "explicit":
            normal = n.tolist()
        elif orient == "cw-about-normal":
            normal = (-n).tolist()
        elif orient == "reversed-default":
            v = v[::-1].copy()
        return {"family": "polygon", "vertices": v.tolist(), "normal": normal,
                "cls": "ConvexPolygon" if rng.random() < 0.5 else "Polygon", "seed": seed,
                "info": {"kind": "%s:%s" % (kindp, shape), "eps": eps, "offset_diams": offset, "orient": orient, "n": len(v)}}
    shape = shape or ["box", "prism"][int(rng.integers(2))]
    if shape == "box":
        v = np.array([[x, y, z] for x in (0, 1) for y in (0, 1) for z in (0, 1)], dtype=float) * [a, a, a * (1 + eps)]
    else:
        k = int(rng.integers(3, 8))
        v = _regular_prism(k, 2 * np.cos(np.pi / k) * (1 + eps)) * a
    v = v @ rot.T
    v = v + direction * offset * gen.diameter(v)
    v = v[rng.permutation(len(v))]
    if not gen.in_convex_position(v):
        return None
    return {"family": "polyhedron", "vertices": v.tolist(), "seed": seed,
            "info": {"kind": "%s:%s" % (kindp, shape), "eps": eps, "offset_diams": offset, "scale": 1.0, "rotated": True}}


# fixed regression witnesses (defects repaired in /repo: they must be caught if they return)
def witnesses():
    cube = [[x, y, z] for x in (0.0, 1.0) for y in (0.0, 1.0) for z in (0.0, 1.0)]
    cube_off = (np.array(cube) + [10, 0, 0]).tolist()
    sq_off = (np.array([[0, 0, 0], [1, 0, 0], [1, 1, 0], [0, 1, 0.0]]) + [10, 3, 0]).tolist()
    dip = np.array([[0, 0, 0], [1, 0, 0], [0, 1, 0], [0, 0, 1], [2 / 3, 2 / 3, 2 / 3]])
    out = [
        {"family": "polygon", "vertices": [[0, 0, 0], [2, 0, 0], [2, 1, 0], [0, 1, 0]], "normal": None, "cls": "Polygon",
         "info": {"kind": "witness:rect-2x1-incircle"}, "seed": 1},
        {"family": "polygon", "vertices": [[0, 0, 0], [3, 0, 0], [0, 4, 0]], "normal": [0, 0, -1], "cls": "Polygon",
         "info": {"kind": "witness:cw-triangle-incircle"}, "seed": 2},
        {"family": "polygon", "vertices": [[0, 4, 0], [3, 0, 0], [0, 0, 0]], "normal": [0, 0, 1], "cls": "Polygon",
         "info": {"kind": "witness:cw-triangle-incircle"}, "seed": 3},
        {"family": "polygon", "vertices": [[2, 0, 0], [0, -1, 0], [-2, 0, 0], [0, 1, 0]], "normal": [0, 0, 1],
         "cls": "Polygon", "info": {"kind": "witness:cw-rhombus-incircle"}, "seed": 4},
        {"family": "polygon", "vertices": (0.01 * np.array([[0, 0, 0], [2, 0, 0], [3, 2, 0], [0, 1, 0.0]])).tolist(),
         "normal": None, "cls": "Polygon", "info": {"kind": "witness:small-noncyclic-quad"}, "seed": 5},
        {"family": "polygon", "vertices": (1e-3 * np.array([[0, 0, 0], [2, 0, 0], [2, 1, 0], [0, 1, 0.0]])).tolist(),
         "normal": None, "cls": "Polygon", "info": {"kind": "witness:small-rect-incircle"}, "seed": 6},
        {"family": "polyhedron", "vertices": (0.01 * dip).tolist(), "info": {"kind": "witness:small-dipyramid"}, "seed": 7},
        {"family": "polyhedron", "vertices": (1e-4 * np.array(cube) * [1.5, 1, 1]).tolist(),
         "info": {"kind": "witness:small-box-insphere"}, "seed": 8},
        {"family": "polyhedron", "vertices": (1e3 * np.array(cube)).tolist(), "info": {"kind": "witness:large-cube"}, "seed": 9},
    ]
    for k in (1, 2, 3, MAX_ATTEMPTS - 1, MAX_ATTEMPTS):
        out.append({"family": "polyhedron", "vertices": cube_off, "fail_first": k,
                    "info": {"kind": "witness:forced-%d-failures" % k}, "seed": 20 + k})
        out.append({"family": "polygon", "vertices": sq_off, "normal": None, "cls": "Polygon", "fail_first": k,
                    "info": {"kind": "witness:forced-%d-failures" % k}, "seed": 40 + k})
    out.append({"family": "curved", "kind": "Circle", "axes": [1.5], "center": [1, 2, 0], "info": {"tie": "witness"}})
    # repaired in 0897fc7: circumcircle of a 3e-9-sized triangle was accurate to 2.7e-7 only (unit plane row in the lstsq)
    tri = 3e-9 * np.array([[-0.04181063, 1.23054366, 0.87019993], [0.29206614, 1.46955829, 0.90975153],
                           [0.36682145, 1.5067784, 0.89943723]])
    for cls_ in ("Polygon", "ConvexPolygon"):
        out.append({"family": "polygon", "vertices": tri.tolist(), "normal": None, "cls": cls_,
                    "info": {"kind": "witness:tiny-triangle-circumcircle"}, "seed": 60})
    # repaired in da3be45 (must be caught if it returns): `miniball` returns the circumsphere of one rectangular side face
    # of this rotated triangular prism (two vertices 1.58 r away) when Python's global `random` is seeded with 14;
    # coxeter used to pass it on, now `_is_minimal_bounding_ball` rejects it and the loop retries
    out.append({"family": "polyhedron", "vertices": PRISM3_ROT, "info": {"kind": "witness:miniball-unverified-prism"},
                "seed": 14})
    out.append({"family": "polyhedron", "vertices": PRISM3_ROT, "info": {"kind": "witness:miniball-prism-good-seed"},
                "seed": 0})
    out.append({"family": "polyhedron", "vertices": PRISM3_ROT,
                "faces": [[0, 2, 1], [3, 4, 5], [0, 3, 5, 2], [1, 2, 5, 4], [0, 1, 4, 3]],
                "info": {"kind": "witness:miniball-unverified-prism-general-class"}, "seed": 14})
    # repaired in 500eda1 (max_attempts 10 -> 50; must be caught if it returns): retry exhaustion on valid shapes. On
    # cospherical sets with many vertices miniball raises LinAlgError on roughly every second attempt whatever the rotation,
    # so 10 attempts were not enough about once in 1e3 calls; deterministic witnesses: the uniform 41-gon prism (82 vertices)
    # and the regular 41-gon with the seeds below — they must now return the minimal ball
    try:
        from coxeter.families import RegularNGonFamily, UniformPrismFamily
        pr = UniformPrismFamily.get_shape(n=41)
        pv = np.array(pr.vertices, dtype=float).tolist()
        out.append({"family": "polyhedron", "vertices": pv, "seed": 923,
                    "info": {"kind": "witness:retry-exhaustion-prism41"}})
        out.append({"family": "polyhedron", "vertices": pv, "faces": [[int(t) for t in f] for f in pr.faces], "seed": 923,
                    "info": {"kind": "witness:retry-exhaustion-prism41-general-class"}})
        ng = np.array(RegularNGonFamily.get_shape(n=41).vertices, dtype=float).tolist()
        out.append({"family": "polygon", "vertices": ng, "normal": None, "cls": "Polygon", "seed": 967,
                    "info": {"kind": "witness:retry-exhaustion-41gon"}})
    except Exception:  # noqa: BLE001
        pass
    return out


# =========================================================================== entry points


def eval_case(ctx, case):
    fam = case["family"]
    info = case.get("info", {})
    ctx.count("family:" + fam)
    if "kind" in info:
        ctx.count("kind:" + str(info["kind"]).split(":")[0] + (":" + str(info["kind"]).split(":")[1]
                                                                 if ":" in str(info["kind"]) else ""))
    if info.get("scale", 1.0) != 1.0:
        ctx.count("scale!=1")
    if "orient" in info:
        ctx.count("orient:" + info["orient"])
    if case.get("fail_first"):
        ctx.count("forced-failures:%d" % case["fail_first"])
    if fam == "polyhedron":
        eval_polyhedron(ctx, case)
    elif fam == "polygon":
        eval_polygon(ctx, case)
    elif fam == "sweep":
        eval_sweep(ctx, case)
    else:
        eval_curved(ctx, case)


def run(ctx):
    rng = ctx.rng
    cases = list(witnesses())
    plan = [("polyhedron", "c01", ctx.budget(30, 600)), ("polyhedron", "special", ctx.budget(30, 600)),
            ("polyhedron", "lattice", ctx.budget(10, 200)), ("polyhedron", "nonconvex", ctx.budget(10, 200)),
            ("polygon", "c04", ctx.budget(40, 800)), ("polygon", "special", ctx.budget(50, 1000)),
            ("polyhedron", "xscale", ctx.budget(14, 280)), ("polygon", "xscale", ctx.budget(20, 400))]
    for fam, mode, n in plan:
        for _ in range(n):
            c = make_polyhedron_case(rng, ctx, mode) if fam == "polyhedron" else make_polygon_case(rng, ctx, mode)
            if c is None:
                continue
            # a few generated cases also get forced miniball failures
            if rng.random() < 0.15:
                c["fail_first"] = int(rng.choice([1, 2, 3, MAX_ATTEMPTS - 1]))
            cases.append(c)
    tabs = gen.tabulated_solids()
    if ctx.tier == "quick" and ctx.widen == 1:
        idx = rng.choice(len(tabs), size=14, replace=False)
        tabs = [tabs[i] for i in idx]
    for fam, name, v in tabs:
        v2, info = gen.place(rng, v)
        cases.append({"family": "polyhedron", "vertices": v2.tolist(), "seed": int(rng.integers(2 ** 31)),
                      "info": dict(info, kind="tabulated:" + fam, name=name)})
    for _ in range(ctx.budget(40, 800)):
        cases.append(make_curved_case(rng, ctx))
    # nearly tangential shapes at 0 / 1 / 10 diameters from the origin; two of them always sit in the window where a
    # placement-dependent tolerance would start to accept (relative defect ~1.2e-3 at 10 diameters)
    for fam, eps_, shp in (("polygon", 3.4e-3, "rect"), ("polyhedron", 3.6e-3, "box")):
        c = make_near_tangential_case(rng, ctx, fam, eps=eps_, offset=10.0, shape=shp)
        if c is not None:
            cases.append(c)
    for fam, n in (("polygon", ctx.budget(24, 480)), ("polyhedron", ctx.budget(12, 240))):
        for _ in range(n):
            c = make_near_tangential_case(rng, ctx, fam)
            if c is not None:
                cases.append(c)
    if ctx.tier == "thorough":
        for fam, n in (("polygon", ctx.budget(0, 120)), ("polyhedron", ctx.budget(0, 60))):
            for _ in range(n):
                c = make_near_tangential_case(rng, ctx, fam, stress=True)
                if c is not None:
                    cases.append(c)
    for _ in range(ctx.budget(16, 160)):
        c = make_sweep_case(rng, ctx, 40 if ctx.tier == "quick" else 100)
        if c is not None:
            cases.append(c)
    for case in cases:
        ctx.case(case)
        eval_case(ctx, case)


def replay(ctx, payload):
    case = payload.get("case", payload)
    ctx.case(case)
    eval_case(ctx, case)
