"""Run the checks against the seeded changes kept under /verif/seeded/<id>/ (patch.diff, demo.py, meta.json).

  python3 harness/seedtest.py [id ...]        (cwd /verif)

Each patch is applied to a scratch worktree of /repo (never to /repo itself), the demonstration is run
with and without it, the property's quick check is run with COXETER_REPO pointing at the worktree, and the
outcome (VIOLATION lines, exit code) is written to seeded/<id>/result.json.  The worktree is removed."""
import json
import os
import subprocess
import sys
import time

VERIF = os.path.dirname(os.path.dirname(os.path.abspath(__file__)))
WT = "/tmp/seedwt-%d" % os.getpid()


def sh(cmd, **kw):
    return subprocess.run(cmd, shell=True, capture_output=True, text=True, **kw)


def main():
    ids = sys.argv[1:] or sorted(d for d in os.listdir(os.path.join(VERIF, "seeded"))
                                 if os.path.isdir(os.path.join(VERIF, "seeded", d)))
    sh("git -C /repo worktree remove --force %s" % WT)
    r = sh("git -C /repo worktree add --detach %s HEAD" % WT)
    if r.returncode:
        print(r.stderr)
        return 2
    summary = []
    try:
        for sid in ids:
            d = os.path.join(VERIF, "seeded", sid)
            meta = json.load(open(os.path.join(d, "meta.json")))
            pid = meta["property"]
            sh("git -C %s checkout -- . && git -C %s clean -fdq" % (WT, WT))
            a = sh("git -C %s apply %s" % (WT, os.path.join(d, "patch.diff")))
            if a.returncode:
                # later fix: commits may have moved the context: fall back to a three-way merge of the patch
                sh("git -C %s checkout -- . && git -C %s clean -fdq" % (WT, WT))
                a = sh("git -C %s apply --3way %s" % (WT, os.path.join(d, "patch.diff")))
                sh("git -C %s reset -q" % WT)
            if a.returncode:
                summary.append((sid, pid, "PATCH-DOES-NOT-APPLY", a.stderr.strip()[:200]))
                print(summary[-1], flush=True)
                continue
            env = dict(os.environ, PYTHONPATH=WT)
            demo_mut = sh("/venv/bin/python %s" % os.path.join(d, "demo.py"), env=env, timeout=600)
            demo_clean = sh("/venv/bin/python %s" % os.path.join(d, "demo.py"), env=dict(os.environ, PYTHONPATH="/repo"), timeout=600)
            tests = None
            if os.environ.get("SEED_RUN_TESTS"):
                # the existing suite with the change; timing flakes of a loaded machine (hypothesis deadlines) are
                # re-run alone, serially, before the verdict
                tr = sh("cd %s && /venv/bin/python -m pytest -q -p no:cacheprovider -n 8 --timeout=900 -rf 2>&1 | tail -60" % WT,
                        timeout=3600)
                failed = sorted(set(l.split()[1].split("[")[0] for l in tr.stdout.splitlines() if l.startswith("FAILED ")))
                tests = tr.stdout.strip().splitlines()[-1] if tr.stdout.strip() else "no output"
                if failed:
                    rr = sh("cd %s && /venv/bin/python -m pytest -q -p no:cacheprovider --timeout=900 %s 2>&1 | tail -3"
                            % (WT, " ".join("'%s'" % f for f in failed)), timeout=3600)
                    tests += " | re-run of %d failed alone: %s" % (len(failed), rr.stdout.strip().splitlines()[-1] if rr.stdout.strip() else "?")
            t0 = time.time()
            if os.environ.get("SEED_SKIP_CHECK"):
                # only (re-)confirm the test-suite claim; keep the recorded check outcome
                rp = os.path.join(d, "result.json")
                res = json.load(open(rp)) if os.path.exists(rp) else {"id": sid, "property": pid}
                res["tests_with_change"] = tests
                res["demo_with_change_rc"], res["demo_without_change_rc"] = demo_mut.returncode, demo_clean.returncode
                json.dump(res, open(rp, "w"), indent=1)
                print((sid, pid, "TESTS", tests), flush=True)
                continue
            chk = sh("COXETER_REPO=%s ./check %s --tier quick" % (WT, pid), cwd=VERIF, timeout=3600)
            viol = [l for l in chk.stdout.splitlines() if l.startswith("VIOLATION")]
            res = {"id": sid, "property": pid, "demo_with_change_rc": demo_mut.returncode,
                   "demo_without_change_rc": demo_clean.returncode, "check_rc": chk.returncode,
                   "violation_lines": viol, "check_tail": chk.stdout.splitlines()[-1:] , "wall_s": round(time.time() - t0, 1),
                   "caught": chk.returncode == 1 and bool(viol), "tests_with_change": tests}
            json.dump(res, open(os.path.join(d, "result.json"), "w"), indent=1)
            summary.append((sid, pid, "CAUGHT" if res["caught"] else "MISSED(rc=%d)" % chk.returncode,
                            "demo %d/%d" % (demo_mut.returncode, demo_clean.returncode), viol[:1]))
            print(summary[-1], flush=True)
    finally:
        sh("git -C /repo worktree remove --force %s" % WT)
        # runs against a mutated worktree regenerate lean/CoxeterVerif/Generated from it: put /repo's tables back
        sh("/venv/bin/python harness/translate_all.py", cwd=VERIF, env=dict(os.environ, PYTHONPATH="/repo", COXETER_REPO="/repo"))
    return 0


if __name__ == "__main__":
    sys.exit(main())
