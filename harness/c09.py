"""C09 — results are covariant under rotation, translation, scaling and relabelling.

Oracle (C): metamorphic relation ON THE IMPLEMENTATION — for a shape x and a transformation g every public
query on g(x) is compared with g applied to the query on x.  The queries are enumerated by reflection over
the class (dir), so new members are picked up; LAWS says how each known name transforms, SKIP lists the few
members that are not queries (with the reason).
Correspondence (B): the Lean models of C01/C02/C04 (driver ops cp.measures, poly.measures,
polytri.triangulate, polygon.measures) are run on x AND on g(x) and compared with the implementation on
both, and with each other through g (the numerical shadow of the theorems of Props/C09.lean).
"""
import inspect
import itertools
import warnings

import numpy as np
import rowan

import gen
import history
from common import L, ModelRaise, exc_kind

RULE = ("shapes x: gen.convex_solid (ConvexPolyhedron, ConvexSpheropolyhedron, Polyhedron copy), C02 meshes (voxel solids, "
        "extruded polygons, perturbed hulls), gen.polygon2d + gen.embed_polygon (Polygon, ConvexPolygon, "
        "ConvexSpheropolygon; xy-plane and random planes; ccw/cw; default/explicit normal), axis-aligned boxes and "
        "rectangles, Circle, Ellipse, Sphere, Ellipsoid; transformations g: proper rotation (random; in-plane for "
        "xy shapes; axis permutations for Ellipse/Ellipsoid), translation <= 10 diameters, uniform scale 1e-3..1e3, "
        "relabelling (vertex permutation for convex classes; vertex relabelling + cyclic shift of every face for "
        "Polyhedron; cyclic shift for Polygon), and their composition; a third of the rotations are ALMOST symmetries of "
        "the axes (gen.near_axis_rotation: tilt 1e-7..3e-2 rad, optional flip / quarter turn; in-plane: a multiple of a "
        "quarter turn +- 1e-7..3e-2), polygons also in almost-flat planes; vertices and query points in the (N,2) and "
        "(N,3) layouts (xy-plane shapes, independently for x and g(x)); g(x) built directly or (one third) REACHED THROUGH "
        "MUTATORS (history.maybe_via_history: scaled, shifted copy -> every member read -> size / centroid / radius "
        "setters); on half of the cases the exports (to_hoomd, gsd_shape_spec, inertia_tensor, repr) are called on the "
        "object before the queries; every public query by reflection; fixed corpus: repaired scale/position defects, "
        "axis-aligned shapes against rotated and almost-axis-aligned copies, and one case per absolute tolerance left in "
        "the Python (isclose(q^2,0), isclose(z,0), coplanarity tolerance); COORDINATE TIES: general Polyhedra in 'nice' "
        "coordinates (tabulated Platonic / Archimedean / Catalan / Johnson solids as stored, hulls of integer points, voxel "
        "solids) with query points that share two coordinates exactly with a vertex or an edge midpoint - 2..4 circumradii "
        "away along an axis (certainly outside) and along the axis-parallel lines through the shape - compared on x (ties), "
        "on a generically placed copy g(x) (no ties) and with an exact membership oracle (facet planes of scipy's hull / "
        "voxel cells); distinct = distinct (class, parameters); "
        "non-trivial = all")
ASSUMPTIONS = [
    "tolerance 1e-9 * natural scale ((size + |offset|)^k, maximum over x and g(x)); 1e-6 relative for the "
    "miniball-derived minimal bounding circle/sphere (iterative external solver); 1e-7 * measure for form factors "
    "(Stokes sums cancel) with q kept 1e-2 rad away from every face normal",
    "decisions (containment, existence of in/circum-balls) are compared only when they are stable on x under a "
    "perturbation of 1e-6*size (points) — nearer cases are counted in skipped_near_boundary",
    "Shape2D.inertia_tensor of Circle/Ellipse is the library convention diag(0,0,J): only J is subject to the law "
    "(J -> s^4 J_c + s^2 A |c'|^2, in-plane motions)",
    "planar_moments_inertia is defined in the (arbitrary) kabsch frame: the tensor law is checked for shapes in the "
    "xy-plane with normal +z under in-plane motions; for tilted polygons only the frame-free polar moment is checked",
    "distance_to_surface takes angles in the shape's own plane: the law dts'(theta+alpha) = s dts(theta) is checked for "
    "xy-plane shapes under in-plane rotations (and pure translation/scaling/relabelling for all)",
    "form-factor wave vectors are kept outside the absolute np.isclose(q^2, 0) windows on both sides of g in the random "
    "sweep; the scale dependence of those windows is exercised by fixed cases and reported as a known finding",
    "ConvexPolyhedron.simplices: the triangulation of a non-triangular facet is Qhull's choice; only count and total "
    "area are subject to the law",
    "an export that RAISES and leaves the shape moved (as Polyhedron.to_hoomd did on a polyhedron with a non-convex "
    "face before 27220f0) is reported once under its own signature; the remaining queries of that case are then asked "
    "of a fresh copy",
    "the (N,2) layout of query points is compared only when g maps the plane z = 0 to itself",
    "minimal_bounding_circle/sphere raising RuntimeError on one side only is an external-solver contract failure (counted) "
    "when the same query on the same shape succeeds for another state of Python's global `random` (miniball draws its "
    "pivots from it; on large cospherical vertex sets all ten verified attempts fail for ~2 % of the states, on x and on "
    "g(x) alike); a failure that persists over six states is reported",
    "shapes reached through mutators agree with the directly built ones to 1e-12 * (size + offset) (checked by "
    "history.via_history, which otherwise falls back to the direct object): inside the 1e-9 tolerances used here",
]

SKIP = {
    "plot": "draws with matplotlib; no value",
    "to_plato_scene": "needs the optional plato package; no geometric value",
    "save": "writes a file (covered by C20)",
    "to_json": "generic getattr dump of the listed attributes; every attribute is checked as its own query",
    "merge_faces": "mutator (C03)", "sort_faces": "mutator (C03)", "diagonalize_inertia": "mutator (C03)",
    "bounding_circle": "deprecated alias of minimal_bounding_circle (warns and forwards)",
    "bounding_sphere": "deprecated alias of minimal_bounding_sphere (warns and forwards)",
    "incircle_from_center": "deprecated alias of maximal_centered_bounded_circle (warns and forwards)",
    "insphere_from_center": "deprecated alias of maximal_centered_bounded_sphere (warns and forwards)",
    "circumsphere_from_center": "deprecated alias of minimal_centered_bounding_sphere (warns and forwards)",
}

# name -> law
LAWS = {}
for _n in ("perimeter", "circumference", "radius", "diameter", "mean_curvature", "edge_lengths",
           "minimal_bounding_circle_radius", "minimal_centered_bounding_circle_radius", "maximal_bounded_circle_radius",
           "maximal_centered_bounded_circle_radius", "minimal_bounding_sphere_radius",
           "minimal_centered_bounding_sphere_radius", "maximal_bounded_sphere_radius",
           "maximal_centered_bounded_sphere_radius", "circumcircle_radius", "incircle_radius", "circumsphere_radius",
           "insphere_radius"):
    LAWS[_n] = "length"
for _n in ("area", "surface_area"):
    LAWS[_n] = "area"
LAWS.update({
    "volume": "volume", "signed_area": "signed_area", "centroid": "point", "center": "point",
    "vertices": "vertices", "face_centroids": "face_points", "normal": "normal", "normals": "face_vectors",
    "equations": "equations", "faces": "faces", "neighbors": "neighbors", "edges": "edges",
    "edge_vectors": "edge_vectors", "simplices": "simplices", "inertia_tensor": "inertia",
    "planar_moments_inertia": "planar", "polar_moment_inertia": "polar", "iq": "dimensionless", "tau": "dimensionless",
    "asphericity": "dimensionless", "eccentricity": "dimensionless", "num_vertices": "count", "num_faces": "count",
    "num_edges": "count", "gsd_shape_spec": "gsd", "to_hoomd": "hoomd", "polygon": "core", "polyhedron": "core",
    "a": "semi_axis", "b": "semi_axis", "c": "semi_axis", "is_inside": "inside", "distance_to_surface": "dts",
    "compute_form_factor_amplitude": "ff", "get_dihedral": "dihedral", "get_face_area": "face_areas",
})
for _n in ("minimal_bounding_circle", "minimal_centered_bounding_circle", "maximal_bounded_circle",
           "maximal_centered_bounded_circle", "maximal_bounding_circle", "circumcircle", "incircle",
           "minimal_bounding_sphere", "minimal_centered_bounding_sphere", "maximal_bounded_sphere",
           "maximal_centered_bounded_sphere", "circumsphere", "insphere"):
    LAWS[_n] = "ball"
LAWS["is_inside:N2"] = "inside"
MINIBALL = {"minimal_bounding_circle", "minimal_bounding_sphere", "minimal_bounding_circle_radius",
            "minimal_bounding_sphere_radius"}
Z = np.array([0.0, 0.0, 1.0])
WIN = 1e-8


# ===================================================================== transformations

def rot_z(al):
    c, s = np.cos(al), np.sin(al)
    return np.array([[c, -s, 0.0], [s, c, 0.0], [0.0, 0.0, 1.0]])


NEAR_AXIS_P = 0.35


def near_quarter_turn(rng):
    """k * pi/2 + delta, |delta| log-uniform in [1e-7, 3e-2]"""
    d = float(np.exp(rng.uniform(np.log(1e-7), np.log(3e-2)))) * (1.0 if rng.random() < 0.5 else -1.0)
    return int(rng.integers(0, 4)) * np.pi / 2 + d


def make_g(rng, kind, case):
    """g = x -> s R x + t (+ relabelling).  `kind` in rotation/translation/scaling/relabel/composite."""
    g = {"kind": kind, "s": 1.0, "R": np.eye(3), "t": np.zeros(3), "alpha": None, "relabel": None}
    cls = case["cls"]
    size = case_size(case)
    planar = cls in ("Polygon", "ConvexPolygon", "ConvexSpheropolygon", "Circle", "Ellipse")
    inplane = planar and case.get("plane", "xy") == "xy"
    if kind in ("rotation", "composite"):
        if cls in ("Ellipse",):
            q = int(rng.integers(1, 4))
            g["R"] = np.round(rot_z(q * np.pi / 2))
            g["alpha"] = q * np.pi / 2
        elif cls == "Ellipsoid":
            g["R"] = gen.c05_signed_perm_rotation(rng)
        elif cls == "Circle" or (inplane and rng.random() < 0.75):
            if cls != "Circle" and rng.random() < NEAR_AXIS_P:
                # almost a multiple of a quarter turn: edges of an axis-aligned x get slopes ~ +-1e-7..3e-2 or their
                # reciprocals (next to the slope 0 / infinity branches), normals next to the argmax ties
                al = near_quarter_turn(rng)
                g["near_axis"] = True
            else:
                al = float(rng.uniform(0, 2 * np.pi))
            g["R"] = rot_z(al)
            g["alpha"] = al
        elif rng.random() < NEAR_AXIS_P:
            g["R"] = gen.near_axis_rotation(rng)      # tilt 1e-7..3e-2 rad, optional flip / quarter turn
            g["near_axis"] = True
        else:
            g["R"] = gen.random_rotation(rng)
    if kind in ("translation", "composite"):
        u = rng.normal(size=3)
        if inplane and (g["alpha"] is not None or kind == "translation") and rng.random() < 0.8:
            u[2] = 0.0
        u /= np.linalg.norm(u)
        g["t"] = u * float(rng.uniform(0.05, 10)) * size
    if kind in ("scaling", "composite"):
        g["s"] = float(10 ** rng.uniform(-3, 3))
    if kind in ("relabel", "composite"):
        if cls in ("ConvexPolyhedron", "ConvexSpheropolyhedron", "ConvexPolygon", "ConvexSpheropolygon"):
            g["relabel"] = {"perm": rng.permutation(len(case["vertices"])).tolist()}
        elif cls == "Polyhedron":
            n = len(case["vertices"])
            g["relabel"] = {"perm": rng.permutation(n).tolist(),
                            "shifts": [int(rng.integers(len(f))) for f in case["faces"]]}
        elif cls == "Polygon":
            g["relabel"] = {"shift": int(rng.integers(1, len(case["vertices"])))}
    if kind == "composite":
        # the similarity is applied about the origin after a translation: x -> s R x + t with t scaled
        g["t"] = g["t"] * g["s"]
    return g


def gp(g, P):
    """image of points"""
    P = np.asarray(P, dtype=float)
    return g["s"] * (P @ g["R"].T) + g["t"]


def case_size(case):
    cls = case["cls"]
    if "vertices" in case:
        return gen.diameter(np.asarray(case["vertices"], dtype=float)) + 2 * float(case.get("radius", 0.0))
    if cls in ("Circle", "Sphere"):
        return 2 * case["radius"]
    if cls == "Ellipse":
        return 2 * max(case["a"], case["b"])
    return 2 * max(case["a"], case["b"], case["c"])


def transform_case(case, g):
    """parameters of g(x)"""
    cls = case["cls"]
    out = dict(case)
    s, R = g["s"], g["R"]
    rl = g["relabel"]
    if "vertices" in case:
        V = gp(g, case["vertices"])
        if rl and "perm" in rl:
            perm = np.array(rl["perm"])
            # new index of old vertex i is perm[i]
            Vn = np.empty_like(V)
            Vn[perm] = V
            V = Vn
            if "faces" in case:
                F = [[int(perm[i]) for i in f] for f in case["faces"]]
                F = [f[k:] + f[:k] for f, k in zip(F, rl["shifts"])]
                out["faces"] = F
        if rl and "shift" in rl:
            V = np.roll(V, -rl["shift"], axis=0)
        out["vertices"] = V.tolist()
        if "layout" in case or g.get("layout"):
            out["layout"] = g.get("layout") or "N3"
        if case.get("normal") is not None:
            out["normal"] = (R @ np.asarray(case["normal"], dtype=float)).tolist()
        if "radius" in case:
            out["radius"] = case["radius"] * s
        if "plane" in case:
            # "xy" = parallel to the xy-plane (normal +-z): kept by in-plane rotations and any translation
            out["plane"] = case["plane"] if (g["alpha"] is not None or np.allclose(R, np.eye(3))) else "random"
        return out
    c = gp(g, np.asarray(case["center"], dtype=float))
    out["center"] = c.tolist()
    if cls in ("Circle", "Sphere"):
        out["radius"] = case["radius"] * s
    elif cls == "Ellipse":
        ax = np.abs(R[:2, :2]) @ np.array([case["a"], case["b"]])
        out["a"], out["b"] = float(ax[0] * s), float(ax[1] * s)
    else:
        ax = np.abs(R) @ np.array([case["a"], case["b"], case["c"]])
        out["a"], out["b"], out["c"] = [float(v * s) for v in ax]
    return out


def layout_vertices(case):
    """the vertex argument in the layout the case asks for: (N,3), or (N,2) when every z is exactly 0"""
    V = np.array(case["vertices"], dtype=float)
    if case.get("layout") == "N2" and np.all(V[:, 2] == 0.0):
        return V[:, :2].copy()
    return V


def build(case):
    import coxeter
    S = coxeter.shapes
    cls = case["cls"]
    if cls == "ConvexPolyhedron":
        return S.ConvexPolyhedron(np.array(case["vertices"], dtype=float))
    if cls == "ConvexSpheropolyhedron":
        return S.ConvexSpheropolyhedron(np.array(case["vertices"], dtype=float), case["radius"])
    if cls == "Polyhedron":
        return S.Polyhedron(np.array(case["vertices"], dtype=float), [np.array(f) for f in case["faces"]])
    if cls in ("Polygon", "ConvexPolygon"):
        kw = {}
        if case.get("normal") is not None:
            kw["normal"] = np.array(case["normal"], dtype=float)
        return getattr(S, cls)(layout_vertices(case), **kw)
    if cls == "ConvexSpheropolygon":
        kw = {}
        if case.get("normal") is not None:
            kw["normal"] = np.array(case["normal"], dtype=float)
        return S.ConvexSpheropolygon(layout_vertices(case), case["radius"], **kw)
    if cls == "Circle":
        return S.Circle(case["radius"], case["center"])
    if cls == "Sphere":
        return S.Sphere(case["radius"], case["center"])
    if cls == "Ellipse":
        return S.Ellipse(case["a"], case["b"], case["center"])
    if cls == "Ellipsoid":
        return S.Ellipsoid(case["a"], case["b"], case["c"], case["center"])
    raise ValueError(cls)


# ===================================================================== observation by reflection

def public_members(shape):
    cls = type(shape)
    out = []
    for name in sorted(dir(cls)):
        if name.startswith("_"):
            continue
        a = inspect.getattr_static(cls, name)
        if isinstance(a, property) or type(a).__name__ == "cached_property":
            out.append((name, "property"))
        elif callable(a) or isinstance(a, (classmethod, staticmethod)):
            out.append((name, "method"))
    return out


def canon(v):
    """values -> plain comparable python (balls, nested lists of arrays, dicts)"""
    tn = type(v).__name__
    if tn in ("Circle", "Sphere"):
        return {"__ball__": tn, "radius": float(v.radius), "center": np.array(v.centroid, dtype=float)}
    if tn in ("ConvexPolygon", "ConvexPolyhedron", "Polygon", "Polyhedron"):
        return {"__shape__": tn, "vertices": np.array(v.vertices, dtype=float)}
    if isinstance(v, dict):
        return {k: canon(x) for k, x in v.items()}
    if isinstance(v, (list, tuple)):
        try:
            arr = np.array(v, dtype=float)
            if arr.dtype != object and arr.ndim >= 1 and all(np.ndim(x) == arr.ndim - 1 for x in v):
                return arr
        except (ValueError, TypeError):
            pass
        return [canon(x) for x in v]
    if isinstance(v, np.ndarray):
        return np.array(v)
    if isinstance(v, (bool, np.bool_)):
        return bool(v)
    if isinstance(v, (int, np.integer)):
        return int(v)
    if isinstance(v, (float, np.floating)):
        return float(v)
    if isinstance(v, complex):
        return complex(v)
    return v


def probe_args(name, probes, which):
    """arguments of the methods with parameters; `which` = 'x' or 'g'"""
    if name == "is_inside":
        return (np.array(probes["points_" + which]),)
    if name == "distance_to_surface":
        return (np.array(probes["angles_" + which]),)
    if name == "compute_form_factor_amplitude":
        return (np.array(probes["q_" + which]),)
    if name == "get_dihedral":
        return None  # handled separately (pairs of faces)
    if name == "get_face_area":
        return ()
    if name == "to_hoomd":
        return ()
    return None


def observe(shape, probes, which, ctx, fresh=None, exports_first=False):
    """every public query of `shape`.  to_hoomd moves the shape to the origin and back and is not exception safe
    (a query raising in between leaves the shape translated), so its VALUE is taken from a fresh copy `fresh()`.
    exports_first: additionally call the exports (to_hoomd, gsd_shape_spec, repr) on `shape` itself before all other
    queries - a covariant answer must not depend on what was asked before (an export that leaves an off-origin shape
    moved, or a cache filled in a temporary frame, shows as a broken translation/rotation law of the later queries)."""
    obs = {}
    with warnings.catch_warnings():
        warnings.simplefilter("ignore")
        if exports_first:
            for nm in ("to_hoomd", "gsd_shape_spec", "inertia_tensor", "__repr__"):
                before = geometry_key(shape)
                try:
                    m = getattr(shape, nm, None)
                    if callable(m):
                        m()
                except Exception as e:  # noqa: BLE001  (reported through the queries themselves)
                    after = geometry_key(shape)
                    if before.shape != after.shape or float(np.max(np.abs(before - after))) > 1e-9 * probes["size"]:
                        # the export raised half-way and left the shape somewhere else: every later answer would be
                        # about another shape.  Reported once, as itself; the caller goes on with a fresh copy.
                        return {"__export_moved__": ("err", [nm, exc_kind(e),
                                                             float(np.max(np.abs(before - after))) if before.shape == after.shape else None])}
        members = public_members(shape)
        if probes.get("order") is not None:
            # the queries in an order drawn per case (the same for x and every g(x)): an answer must not depend on
            # what was asked before; a cache filled by one query in a temporary frame shows only when another query is
            # read AFTER it
            orng = np.random.default_rng(probes["order"])
            members = [members[i] for i in orng.permutation(len(members))]
        for name, kind in members:
            if name in SKIP:
                continue
            try:
                if name == "to_hoomd" and fresh is not None:
                    obs[name] = ("ok", canon(fresh().to_hoomd()))
                    continue
                if kind == "property":
                    v = getattr(shape, name)
                else:
                    if name == "get_dihedral":
                        continue
                    args = probe_args(name, probes, which)
                    if args is None:
                        sig = inspect.signature(getattr(shape, name))
                        req = [p for p in sig.parameters.values()
                               if p.default is inspect.Parameter.empty and p.kind in (p.POSITIONAL_ONLY, p.POSITIONAL_OR_KEYWORD)]
                        if req:
                            ctx.count("unclassified-method-with-arguments:" + name)
                            continue
                        args = ()
                    v = getattr(shape, name)(*args)
                obs[name] = ("ok", canon(v))
            except Exception as e:  # noqa: BLE001
                obs[name] = ("err", exc_kind(e))
        # the (N,2) layout of the query points (planar classes, shape in the plane z = 0)
        if probes.get("n2_" + which) and hasattr(shape, "is_inside"):
            try:
                obs["is_inside:N2"] = ("ok", canon(shape.is_inside(np.array(probes["points_" + which])[:, :2].copy())))
            except Exception as e:  # noqa: BLE001
                obs["is_inside:N2"] = ("err", exc_kind(e))
    return obs


def geometry_key(shape):
    """where the shape is (to notice an export that raised and left it moved)"""
    if hasattr(shape, "vertices"):
        return np.array(shape.vertices, dtype=float)
    return np.asarray(shape.centroid, dtype=float).ravel().copy()


# ===================================================================== probes (query points, angles, wave vectors)

def plane_frame(n):
    n = np.asarray(n, dtype=float)
    n = n / np.linalg.norm(n)
    a = np.array([1.0, 0, 0]) if abs(n[0]) < 0.9 else np.array([0, 1.0, 0])
    u = np.cross(n, a)
    u /= np.linalg.norm(u)
    w = np.cross(n, u)
    return u, w


def make_probes(rng, case, shape):
    cls = case["cls"]
    size = case_size(case)
    pr = {}
    # ---- points
    if "vertices" in case:
        V = np.asarray(case["vertices"], dtype=float)
        lo, hi = V.min(axis=0), V.max(axis=0)
        c0 = V.mean(axis=0)
    else:
        c0 = np.asarray(case["center"], dtype=float)
        ax = np.array([case.get("a", case.get("radius")), case.get("b", case.get("radius")),
                       case.get("c", case.get("radius") if cls == "Sphere" else 0.0)], dtype=float)
        lo, hi = c0 - ax, c0 + ax
    pad = 0.25 * size + float(case.get("radius", 0.0)) * (cls.startswith("ConvexSphero"))
    n_pts = 20
    planar = cls in ("Polygon", "ConvexPolygon", "ConvexSpheropolygon", "Circle", "Ellipse")
    if planar:
        if "vertices" in case:
            nrm = np.asarray(shape.normal, dtype=float)
            u, w = plane_frame(nrm)
            ab = np.c_[(V - c0) @ u, (V - c0) @ w]
            alo, ahi = ab.min(axis=0) - pad, ab.max(axis=0) + pad
            co = rng.uniform(alo, ahi, size=(n_pts, 2))
            P = c0 + co[:, :1] * u + co[:, 1:2] * w
            stencil = [u, -u, w, -w]
        else:
            P = np.c_[rng.uniform(lo[0] - pad, hi[0] + pad, n_pts), rng.uniform(lo[1] - pad, hi[1] + pad, n_pts),
                      np.full(n_pts, c0[2])]
            P[-3:, 2] += 0.1 * size * np.array([1.0, -1.0, 2.0])      # off the plane: outside
            stencil = [np.array([1.0, 0, 0]), np.array([-1.0, 0, 0]), np.array([0, 1.0, 0]), np.array([0, -1.0, 0])]
    else:
        P = rng.uniform(lo - pad, hi + pad, size=(n_pts, 3))
        stencil = [np.eye(3)[i] * sg for i in range(3) for sg in (1.0, -1.0)]
    P[0] = c0
    pr["points_x"] = P
    pr["n2_x"] = bool(planar and np.all(P[:, 2] == 0.0) and ("vertices" not in case or np.all(V[:, 2] == 0.0)))
    pr["stencil"] = stencil
    pr["size"] = size
    # half of the cases: alphabetical order of the queries; the other half: a random order
    pr["order"] = int(rng.integers(2 ** 31)) if rng.random() < 0.5 else None
    pr["cache"] = {}
    # ---- angles (2-D)
    pr["angles_x"] = np.r_[rng.uniform(0, 2 * np.pi, size=12), [0.0, np.pi / 2, np.pi, 3 * np.pi / 2],
                           rng.uniform(-2 * np.pi, 4 * np.pi, size=2)]
    # ---- wave vectors: |q| size in [0.5, 8], plus exactly zero
    d = rng.normal(size=(6, 3))
    d /= np.linalg.norm(d, axis=1)[:, None]
    pr["q_x"] = np.vstack([d * (rng.uniform(0.5, 8, size=6) / size)[:, None], np.zeros((1, 3))])
    return pr


def map_probes(pr, g):
    s, R = g["s"], g["R"]
    pr = dict(pr)
    pr["points_g"] = gp(g, pr["points_x"])
    al = g["alpha"] if g["alpha"] is not None else 0.0
    pr["angles_g"] = pr["angles_x"] + al
    pr["q_g"] = (pr["q_x"] @ R.T) / s
    pr["n2_g"] = bool(pr.get("n2_x") and np.all(pr["points_g"][:, 2] == 0.0))
    return pr


# ===================================================================== comparison

class Env:
    def __init__(self, ctx, case, gcase, g, sx, sg, ox, og, pr):
        self.ctx, self.case, self.gcase, self.g = ctx, case, gcase, g
        self.sx, self.sg, self.ox, self.og, self.pr = sx, sg, ox, og, pr
        self.s, self.R, self.t = g["s"], g["R"], g["t"]
        self.cls = case["cls"]
        size = case_size(case)
        self.dx = size
        self.dg = size * self.s
        offx = np.linalg.norm(ref_point(case))
        offg = np.linalg.norm(ref_point(gcase))
        self.Lx = size + offx
        self.Lg = self.dg + offg
        self.bad = []

    def close(self, a, b, scale, tol=1e-9):
        return self.ctx.close_enough(a, b, scale, tol)

    def val(self, which, name):
        o = (self.ox if which == "x" else self.og).get(name)
        if o is None or o[0] != "ok":
            return None
        return o[1]


def ref_point(case):
    if "vertices" in case:
        return np.asarray(case["vertices"], dtype=float).mean(axis=0)
    return np.asarray(case["center"], dtype=float)


def vec_img(env, v):
    """image of a vector (difference of points)"""
    return env.s * (np.asarray(v, dtype=float) @ env.R.T)


def match_rows(A, B, tol):
    """permutation p with A[i] ~ B[p[i]] (greedy nearest, one-to-one) or None"""
    A = np.asarray(A, dtype=float)
    B = np.asarray(B, dtype=float)
    if A.shape != B.shape:
        return None
    D = np.linalg.norm(A[:, None, :] - B[None, :, :], axis=-1)
    p = np.argmin(D, axis=1)
    if len(set(p.tolist())) != len(p) or np.any(D[np.arange(len(p)), p] > tol):
        return None
    return p


def vertex_map(env):
    """index map old vertex -> vertex of g(x) (by coordinates; the constructors may reorder)"""
    if hasattr(env, "_vmap"):
        return env._vmap
    vx, vg = env.val("x", "vertices"), env.val("g", "vertices")
    env._vmap = None
    if vx is not None and vg is not None:
        env._vmap = match_rows(gp(env.g, vx), vg, 1e-9 * env.Lg)
    return env._vmap


def face_map(env):
    """index map face of x -> face of g(x) (same vertex set through vertex_map)"""
    if hasattr(env, "_fmap"):
        return env._fmap
    env._fmap = None
    fx, fg = env.val("x", "faces"), env.val("g", "faces")
    vm = vertex_map(env)
    if fx is None or fg is None or vm is None or len(fx) != len(fg):
        return None
    key = {frozenset(int(i) for i in np.ravel(f)): k for k, f in enumerate(fg)}
    out = []
    for f in fx:
        k = key.get(frozenset(int(vm[int(i)]) for i in np.ravel(f)))
        if k is None:
            return None
        out.append(k)
    if len(set(out)) != len(out):
        return None
    env._fmap = out
    return out


def cyc_equal(a, b):
    a, b = list(a), list(b)
    if len(a) != len(b):
        return False
    if not a:
        return True
    for k in range(len(a)):
        if a[k:] + a[:k] == b:
            return True
    return False


def check_law(env, name, law, vx, vg):
    """returns None (ok) or a short description of the mismatch"""
    s, R, t, g = env.s, env.R, env.t, env.g
    dmax = env.dg
    Lmax = max(env.Lg, env.dg)
    cls = env.cls
    rel = 1e-6 if name in MINIBALL else 1e-9
    if law == "length":
        a, b = np.asarray(vx, dtype=float) * s, np.asarray(vg, dtype=float)
        if name == "edge_lengths":
            em = edge_map(env)
            if em is None:
                return "edges of g(x) are not the images of the edges of x"
            return None if env.close(a, b[em[0]], dmax) else "edge lengths do not scale by s"
        return None if env.close(a, b, dmax, rel) else "length does not scale by s: %r vs %r" % (a.tolist(), b.tolist())
    if law == "area":
        return None if env.close(vx * s ** 2, vg, dmax ** 2) else "area does not scale by s^2: %r vs %r" % (vx * s * s, vg)
    if law == "volume":
        return None if env.close(vx * s ** 3, vg, dmax ** 3) else "volume does not scale by s^3: %r vs %r" % (vx * s ** 3, vg)
    if law == "signed_area":
        sign = 1.0
        if cls == "Polygon":
            nx, ng = env.val("x", "normal"), env.val("g", "normal")
            if nx is not None and ng is not None:
                sign = 1.0 if float(np.dot(R @ nx, ng)) > 0 else -1.0
        return None if env.close(vx * s ** 2 * sign, vg, dmax ** 2) else \
            "signed area does not scale by s^2 (sign tied to the normal): %r vs %r" % (vx * s * s * sign, vg)
    if law == "point":
        return None if env.close(gp(g, vx), vg, Lmax) else "point does not move with the shape: %r vs %r" % (gp(g, vx).tolist(), np.asarray(vg).tolist())
    if law == "vertices":
        return None if vertex_map(env) is not None else "vertex set of g(x) is not the image of the vertex set of x"
    if law == "normal":
        e = R @ np.asarray(vx, dtype=float)
        ok = env.close(e, vg, 1.0) or (g["relabel"] is not None and env.close(-e, vg, 1.0))
        return None if ok else "normal does not rotate with the shape: %r vs %r" % (e.tolist(), np.asarray(vg).tolist())
    if law in ("face_points", "face_vectors", "equations", "face_areas"):
        fm = face_map(env)
        if fm is None:
            return "faces of g(x) are not the images of the faces of x (face structure changed)"
        vx, vg = np.asarray(vx, dtype=float), np.asarray(vg, dtype=float)[fm]
        if law == "face_points":
            return None if env.close(gp(g, vx), vg, Lmax) else "face centroids do not move with the shape"
        if law == "face_vectors":
            e = vx @ R.T
            if env.close(e, vg, 1.0):
                return None
            flip = np.array([env.close(-e[k], vg[k], 1.0) and not env.close(e[k], vg[k], 1.0) for k in range(len(e))])
            rest = ~flip
            if flip.any() and env.close(e[rest], vg[rest], 1.0) and env.cls == "Polyhedron":
                env.flipped = set(int(k) for k in np.where(flip)[0])
                return "REFLEX"
            return "face normals do not rotate with the shape"
        if law == "face_areas":
            return None if env.close(vx * s * s, vg, dmax ** 2) else "face areas do not scale by s^2"
        nr = vx[:, :3] @ R.T
        dd = s * vx[:, 3] - nr @ t
        ok = env.close(nr, vg[:, :3], 1.0) and env.close(dd, vg[:, 3], Lmax)
        return None if ok else "plane equations do not move with the shape"
    if law == "faces":
        fm, vm = face_map(env), vertex_map(env)
        if fm is None:
            return "faces of g(x) are not the images of the faces of x (face structure changed)"
        for k, f in enumerate(vx):
            img = [int(vm[int(i)]) for i in np.ravel(f)]
            if not cyc_equal(img, [int(i) for i in np.ravel(vg[fm[k]])]):
                return "a face of g(x) lists the image vertices in a different cyclic order / orientation"
        return None
    if law == "neighbors":
        fm = face_map(env)
        if fm is None:
            return "faces of g(x) are not the images of the faces of x (face structure changed)"
        for k, nb in enumerate(vx):
            if sorted(fm[int(j)] for j in np.ravel(nb)) != sorted(int(j) for j in np.ravel(vg[fm[k]])):
                return "neighbour structure differs"
        return None
    if law == "edges":
        return None if edge_map(env) is not None else "edges of g(x) are not the images of the edges of x"
    if law == "edge_vectors":
        em = edge_map(env)
        if em is None:
            return "edges of g(x) are not the images of the edges of x"
        idx, sgn = em
        return None if env.close(vec_img(env, vx) * sgn[:, None], np.asarray(vg)[idx], dmax) else "edge vectors do not rotate/scale"
    if law == "simplices":
        return None if len(vx) == len(vg) else "number of surface simplices changed: %d vs %d" % (len(vx), len(vg))
    if law in ("dimensionless",):
        mag = max(1.0, abs(float(vx)), abs(float(vg)))      # iq, tau <= 1; asphericity is unbounded for flat shapes
        return None if env.close(vx, vg, mag) else "dimensionless descriptor changed: %r vs %r" % (vx, vg)
    if law == "count":
        return None if vx == vg else "count changed: %r vs %r" % (vx, vg)
    if law == "semi_axis":
        names = ["a", "b", "c"]
        allx = np.array([env.val("x", n) for n in names if env.val("x", n) is not None], dtype=float)
        k = names.index(name)
        e = (np.abs(R[:len(allx), :len(allx)]) @ allx)[k] * s
        return None if env.close(e, vg, dmax) else "semi-axis does not follow the rotation/scale"
    if law == "ball":
        if not (isinstance(vx, dict) and isinstance(vg, dict)):
            return "not a ball"
        ok = env.close(vx["radius"] * s, vg["radius"], dmax, rel) and env.close(gp(g, vx["center"]), vg["center"], Lmax, rel)
        return None if ok else "ball does not move/scale with the shape: r %r vs %r, c %r vs %r" % (
            vx["radius"] * s, vg["radius"], gp(g, vx["center"]).tolist(), vg["center"].tolist())
    if law == "core":
        vm = match_rows(gp(g, vx["vertices"]), vg["vertices"], 1e-9 * env.Lg)
        return None if vm is not None else "core shape does not move with the shape"
    if law == "inertia":
        return law_inertia(env, vx, vg)
    if law == "polar":
        return law_polar(env, vx, vg)
    if law == "planar":
        return law_planar(env, vx, vg)
    if law == "gsd":
        return law_dict(env, vx, vg, "gsd")
    if law == "hoomd":
        return law_dict(env, vx, vg, "hoomd")
    if law == "inside":
        return law_inside(env, vx, vg)
    if law == "dts":
        return law_dts(env, vx, vg)
    if law == "ff":
        return law_ff(env, vx, vg)
    return "no law %r" % law


def edge_map(env):
    if hasattr(env, "_emap"):
        return env._emap
    env._emap = None
    ex, eg, vm = env.val("x", "edges"), env.val("g", "edges"), vertex_map(env)
    if ex is None or eg is None or vm is None or len(ex) != len(eg):
        return None
    key = {frozenset((int(a), int(b))): k for k, (a, b) in enumerate(np.asarray(eg, dtype=int))}
    idx, sgn = [], []
    for a, b in np.asarray(ex, dtype=int):
        a2, b2 = int(vm[a]), int(vm[b])
        k = key.get(frozenset((a2, b2)))
        if k is None:
            return None
        idx.append(k)
        sgn.append(1.0 if a2 < b2 else -1.0)
    env._emap = (np.array(idx, dtype=int), np.array(sgn))
    return env._emap


def pax(m, c):
    c = np.asarray(c, dtype=float)
    return m * (float(c @ c) * np.eye(3) - np.outer(c, c))


def law_inertia(env, vx, vg):
    s, R, g = env.s, env.R, env.g
    cx, cg = env.val("x", "centroid"), env.val("g", "centroid")
    vx, vg = np.asarray(vx, dtype=float), np.asarray(vg, dtype=float)
    if env.cls in ("Circle", "Ellipse"):
        A = env.val("x", "area")
        jc = vx[2, 2] - A * float(cx[0] ** 2 + cx[1] ** 2)
        cimg = gp(g, cx)
        if g["alpha"] is None and not np.allclose(R, np.eye(3)):
            return None
        e = s ** 4 * jc + s * s * A * float(cimg[0] ** 2 + cimg[1] ** 2)
        ok = env.close(e, vg[2, 2], env.Lg ** 2 * env.dg ** 2) and env.close(vg - np.diag([0, 0, vg[2, 2]]), np.zeros((3, 3)), 1.0)
        return None if ok else "J does not follow s^4 J_c + s^2 A |c'|^2: %r vs %r" % (e, vg[2, 2])
    if env.cls in ("Polygon", "ConvexPolygon"):
        m, deg = env.val("x", "area"), 4
    else:
        m, deg = env.val("x", "volume"), 5
    if cx is None or m is None:
        return None
    ic = vx - pax(m, cx)
    cimg = gp(g, cx)
    e = s ** deg * (R @ ic @ R.T) + pax(m * s ** (deg - 2), cimg)
    scale = env.Lg ** 2 * env.dg ** (deg - 2)
    if not env.close(e, vg, scale):
        return "inertia tensor is not s^%d R I_c R^T + parallel-axis term: %r vs %r" % (deg, e.tolist(), vg.tolist())
    # the tensor about the centroid itself (no cancellation against the shift)
    if cg is not None:
        icg = vg - pax(m * s ** (deg - 2), cg)
        if not env.close(s ** deg * (R @ ic @ R.T), icg, scale):
            return "centroidal inertia tensor is not s^%d R I_c R^T" % deg
    return None


def law_polar(env, vx, vg):
    s, g = env.s, env.g
    A, c = env.val("x", "area"), env.val("x", "centroid")
    if A is None or c is None:
        return None if env.close(vx * s ** 4, vg, env.dg ** 4) or not np.allclose(env.t, 0) else "polar moment does not scale by s^4"
    n = env.val("x", "normal")
    n = Z if n is None else np.asarray(n, dtype=float)
    if env.cls in ("Circle", "Ellipse") and g["alpha"] is None and not np.allclose(env.R, np.eye(3)):
        return None
    perp2 = lambda p, nn: float(p @ p - (p @ nn) ** 2)
    jc = vx - A * perp2(np.asarray(c, dtype=float), n)
    cimg = gp(g, c)
    e = s ** 4 * jc + s * s * A * perp2(cimg, env.R @ n)
    return None if env.close(e, vg, env.Lg ** 2 * env.dg ** 2) else \
        "polar moment is not s^4 J_c + s^2 A d^2 (d = distance of the centroid from the normal axis through 0): %r vs %r" % (e, vg)


def law_planar(env, vx, vg):
    s, g, R = env.s, env.g, env.R
    A, c = env.val("x", "area"), env.val("x", "centroid")
    if A is None or c is None:
        return None
    nx, ng = env.val("x", "normal"), env.val("g", "normal")
    for n in (nx, ng):
        if n is not None and not np.allclose(n, Z, atol=1e-12):
            return None                      # kabsch frame is not the xy frame: law not applicable
    if g["alpha"] is None and not np.allclose(R, np.eye(3)):
        return None
    ix, iy, ixy = [float(v) for v in vx]
    M = np.array([[iy, ixy], [ixy, ix]])
    c2 = np.asarray(c, dtype=float)[:2]
    Mc = M - A * np.outer(c2, c2)
    R2 = R[:2, :2]
    ci = gp(g, c)[:2]
    Me = s ** 4 * (R2 @ Mc @ R2.T) + s * s * A * np.outer(ci, ci)
    e = np.array([Me[1, 1], Me[0, 0], Me[0, 1]])
    return None if env.close(e, np.asarray(vg, dtype=float), env.Lg ** 2 * env.dg ** 2) else \
        "planar moments are not s^4 R M_c R^T + s^2 A c' c'^T: %r vs %r" % (e.tolist(), list(vg))


def law_dict(env, vx, vg, what):
    s, R, g = env.s, env.R, env.g
    if set(vx) != set(vg):
        return "keys differ: %r vs %r" % (sorted(vx), sorted(vg))
    for k in vx:
        a, b = vx[k], vg[k]
        if k == "type":
            if a != b:
                return "type changed"
        elif k == "vertices":
            a, b = np.asarray(a, dtype=float), np.asarray(b, dtype=float)
            if a.ndim != 2 or a.shape != b.shape:
                return "vertices shape"
            if what == "hoomd":
                img = s * (np.c_[a, np.zeros(len(a))][:, :3] @ R.T) if a.shape[1] == 2 else s * (a @ R.T)
                img = img[:, :a.shape[1]]
                if a.shape[1] == 2 and g["alpha"] is None and not np.allclose(R, np.eye(3)):
                    continue
                ok = match_rows(img, b, 1e-9 * env.Lg) is not None
            else:
                ok = match_rows(gp(g, a), b, 1e-9 * env.Lg) is not None
            if not ok:
                return "%s vertices do not follow the shape" % what
        elif k in ("rounding_radius", "sweep_radius", "diameter", "radius"):
            if not env.close(a * s, b, env.dg):
                return "%s does not scale by s" % k
        elif k in ("a", "b", "c"):
            continue                          # covered by the semi-axis law
        elif k == "centroid":
            if what == "hoomd" and not env.close(np.zeros(3), np.asarray(b, dtype=float), env.dg):
                return "hoomd centroid is not the origin"
        elif k == "volume":
            if not env.close(a * s ** 3, b, env.dg ** 3):
                return "volume does not scale"
        elif k == "area":
            if not env.close(a * s ** 2, b, env.dg ** 2):
                return "area does not scale"
        elif k == "moment_inertia":
            deg = 4 if env.cls in ("Polygon", "ConvexPolygon") else 5
            if not env.close(s ** deg * (R @ np.asarray(a, dtype=float) @ R.T), np.asarray(b, dtype=float), env.dg ** deg):
                return "hoomd moment of inertia is not s^%d R I R^T" % deg
        elif k in ("indices", "faces"):
            continue                          # covered by the faces law
    return None


def stable_points(env):
    """mask of query points whose containment on x is unchanged in a 1e-6*size stencil"""
    cache = env.pr["cache"]
    if "stable" in cache:
        return cache["stable"]
    P = env.pr["points_x"]
    base = np.asarray(env.sx.is_inside(P), dtype=bool)
    ok = np.ones(len(P), dtype=bool)
    h = 1e-6 * env.dx
    for d in env.pr["stencil"]:
        ok &= (np.asarray(env.sx.is_inside(P + h * d), dtype=bool) == base)
    cache["stable"] = ok
    return ok


def law_inside(env, vx, vg):
    vx, vg = np.asarray(vx, dtype=bool), np.asarray(vg, dtype=bool)
    if vx.shape != vg.shape:
        return "shape of the result changed"
    ok = stable_points(env)
    env.ctx.skipped_near_boundary += int((~ok).sum())
    env.ctx.count("inside:points", int(ok.sum()))
    env.ctx.count("inside:inside", int((vx & ok).sum()))
    bad = np.where(ok & (vx != vg))[0]
    if len(bad):
        i = int(bad[0])
        return "containment of the image point differs: point %r inside(x)=%r inside(g x)=%r" % (
            env.pr["points_x"][i].tolist(), bool(vx[i]), bool(vg[i]))
    return None


def law_dts(env, vx, vg):
    g = env.g
    if env.case.get("plane", "xy") != "xy" or env.gcase.get("plane", "xy") != "xy":
        # angles of a tilted polygon are measured in the kabsch frame, which is an arbitrary (and numerically
        # unstable: rank-1 SVD) in-plane frame — no law relates the angles of x and g(x)
        env.ctx.count("dts:skipped-tilted")
        return None
    vx, vg = np.asarray(vx, dtype=float), np.asarray(vg, dtype=float)
    finx, fing = np.isfinite(vx), np.isfinite(vg)
    if np.any(finx != fing):
        k = int(np.where(finx != fing)[0][0])
        return "distance_to_surface is finite on one side of g only: theta=%r: %r vs %r" % (
            float(env.pr["angles_x"][k]), float(vx[k]), float(vg[k]))
    fin = finx
    env.ctx.count("dts:angles", int(fin.sum()))
    if not env.close(vx[fin] * env.s, vg[fin], env.dg, 1e-9):
        k = int(np.argmax(np.abs(vx[fin] * env.s - vg[fin])))
        return "distance_to_surface(theta+alpha) != s * distance_to_surface(theta): theta=%r: %r vs %r" % (
            float(env.pr["angles_x"][fin][k]), float(vx[fin][k] * env.s), float(vg[fin][k]))
    return None


def ff_windows(env, which):
    """per wave vector: min over (|q|^2, in-plane |q|^2 of every face) and the min sine of the angle to a face normal"""
    q = env.pr["q_" + which]
    q2 = np.sum(q * q, axis=1)
    nrm = env.val(which, "normals")
    if nrm is None:
        n1 = env.val(which, "normal")
        nrm = None if n1 is None else np.asarray(n1, dtype=float)[None, :]
    mins, sines = q2.copy(), np.ones(len(q))
    if nrm is not None:
        nrm = np.asarray(nrm, dtype=float)
        par2 = q2[:, None] - (q @ nrm.T) ** 2
        mins = np.minimum(mins, par2.min(axis=1))
        with np.errstate(divide="ignore", invalid="ignore"):
            sines = np.sqrt(np.clip(par2.min(axis=1) / np.where(q2 > 0, q2, 1.0), 0, 1))
    return q2, mins, sines


def law_ff(env, vx, vg):
    s, t = env.s, env.t
    vx, vg = np.asarray(vx, dtype=complex), np.asarray(vg, dtype=complex)
    deg = 2 if env.cls in ("Polygon", "ConvexPolygon") else 3
    qg = env.pr["q_g"]
    qph = qg
    if deg == 2:
        # a polygon is a 2-D density in its own plane: the library projects q into the plane (convention of C12),
        # so only the in-plane part of q enters the translation phase
        ng = np.asarray(env.val("g", "normal"), dtype=float)
        qph = qg - (qg @ ng)[:, None] * ng
    e = s ** deg * np.exp(-1j * (qph @ t)) * vx
    q2x, mx, sx = ff_windows(env, "x")
    q2g, mg, sg = ff_windows(env, "g")
    zero = q2x == 0
    use = zero | ((mx > 100 * WIN) & (mg > 100 * WIN) & (sx > 1e-2))
    env.ctx.skipped_near_boundary += int((~use).sum())
    env.ctx.count("ff:q", int(use.sum()))
    meas = env.val("x", "volume") if deg == 3 else env.val("x", "area")
    scale = abs(meas) * s ** deg
    d = np.abs(e - vg)[use]
    if len(d) and np.max(d) > 1e-7 * scale:
        k = int(np.argmax(d))
        return "form factor is not s^%d exp(-i q.t) F_x(s R^T q): q'=%r: %r vs %r" % (
            deg, qg[use][k].tolist(), complex(e[use][k]), complex(vg[use][k]))
    return None


def ball_contract(P, c, r):
    """certificate that (c, r) is THE minimal enclosing ball of the points P: contains them and the centre is a
    convex combination of the points on its boundary (1e-7 relative)"""
    from scipy.optimize import nnls
    P = np.asarray(P, dtype=float)
    d = np.linalg.norm(P - c, axis=1)
    if d.max() > r * (1 + 1e-9):
        return False
    S = P[d > r * (1 - 1e-7)]
    if len(S) == 0:
        return False
    A = np.vstack([(S - c).T / r, np.ones(len(S)) * 10.0])
    b = np.r_[np.zeros(P.shape[1]), 10.0]
    _, res = nnls(A, b)
    return bool(res < 1e-6)


def miniball_ok(env, name):
    """external-solver contract (miniball is randomised Welzl in floating point; on degenerate inputs it now and
    then returns a ball that is not minimal or does not contain the points): both sides must carry a certificate"""
    for which, shp in (("x", env.sx), ("g", env.sg)):
        v = env.val(which, name.replace("_radius", ""))
        if v is None:
            continue
        ok = ball_contract(np.asarray(shp.vertices, dtype=float), v["center"], v["radius"])
        if ok and name.endswith("_radius"):
            # the radius getter is a separate (randomised) miniball run: it must reproduce the certified ball
            rv = env.val(which, name)
            ok = rv is not None and abs(rv - v["radius"]) <= 1e-6 * v["radius"]
        if not ok:
            env.ctx.contract_failures.append({"contract": "miniball returns the minimal enclosing ball",
                                              "query": name, "side": which, "cls": env.cls,
                                              "radius": v["radius"], "center": v["center"].tolist(),
                                              "case": (env.case if which == "x" else env.gcase).get("kind")})
            env.ctx.count("contract:miniball-failed")
            return False
    return True


def miniball_retries_random(case, name):
    """the query raised RuntimeError on this shape: does it succeed on the same shape for another state of the global
    `random` (then the failure is the external randomised solver's, not the shape's)?"""
    import random
    for k in range(6):
        random.seed(1000 + k)
        try:
            with warnings.catch_warnings():
                warnings.simplefilter("ignore")
                getattr(build(case), name)
            return True
        except RuntimeError:
            continue
        except Exception:  # noqa: BLE001
            return False
    return False


def compare(env):
    """all queries of g(x) against g(queries of x); returns list of (query, what, detail)"""
    out = []
    ctx = env.ctx
    for name in sorted(set(env.ox) | set(env.og)):
        a, b = env.ox.get(name), env.og.get(name)
        if a is None or b is None:
            if name.endswith(":N2"):
                continue                      # the (N,2) layout cannot express the image points (g leaves the plane z = 0)
            out.append((name, "member exists on one side only", [a is None, b is None]))
            continue
        ctx.count("query:" + name)
        if a[0] == "err" or b[0] == "err":
            if a[0] != b[0] and name in MINIBALL and "RuntimeError" in (a[1], b[1]) and \
                    miniball_retries_random(env.case if a[0] == "err" else env.gcase, name):
                # miniball (external, pivots drawn from Python's global `random`) failed the verification in all ten
                # attempts for THIS state of `random` and succeeds for another one on the very same shape: nothing
                # that depends on g (same rate on x and g(x); C13's subject).  Counted, not judged here.
                ctx.contract_failures.append({"contract": "miniball finds the minimal ball within ten attempts",
                                              "query": name, "cls": env.cls, "side": "x" if a[0] == "err" else "g",
                                              "case": env.case.get("kind")})
                ctx.count("contract:miniball-retries-exhausted")
                continue
            if a[0] != b[0]:
                if name in ("circumcircle", "incircle", "circumsphere", "insphere", "circumcircle_radius",
                            "incircle_radius", "circumsphere_radius", "insphere_radius") and borderline_ball(env, name):
                    ctx.skipped_near_boundary += 1
                    continue
                out.append((name, "raises on one side only" if a[0] == "ok" else "raises on x only",
                            [a[1] if a[0] == "err" else "ok", b[1] if b[0] == "err" else "ok"]))
            elif a[1] != b[1]:
                out.append((name, "exception kind changed", [a[1], b[1]]))
            continue
        law = LAWS.get(name)
        if law is None:
            ctx.count("unclassified-member:" + name)
            continue
        if name in MINIBALL and hasattr(env.sx, "vertices") and not miniball_ok(env, name):
            continue
        try:
            msg = check_law(env, name, law, a[1], b[1])
        except Exception as e:  # noqa: BLE001  (malformed value: report as a mismatch, not a crash)
            msg = "could not compare: %r" % (e,)
        if msg:
            out.append((name, msg, None))
    # dihedrals of neighbouring faces
    if hasattr(env.sx, "get_dihedral") and env.val("x", "neighbors") is not None:
        fm = face_map(env)
        nb = env.val("x", "neighbors")
        if fm is not None:
            pairs = [(i, int(j)) for i in range(len(nb)) for j in np.ravel(nb[i]) if i < int(j)][:12]
            flipped = getattr(env, "flipped", set())
            for i, j in pairs:
                if i in flipped or j in flipped:
                    continue
                try:
                    da, db = float(env.sx.get_dihedral(i, j)), float(env.sg.get_dihedral(fm[i], fm[j]))
                except Exception as e:  # noqa: BLE001
                    out.append(("get_dihedral", "raises", repr(e)))
                    break
                ctx.count("query:get_dihedral")
                if np.isnan(da) != np.isnan(db):
                    fin = db if np.isnan(da) else da
                    if abs(fin - np.pi) < 1e-6 or abs(fin) < 1e-6:
                        out.append(("get_dihedral", "NAN", [i, j, da, db]))
                        break
                if not env.close(da, db, 1.0, 1e-7):
                    out.append(("get_dihedral", "dihedral angle changed: %r vs %r" % (da, db), [i, j]))
                    break
    return out


def borderline_ball(env, name):
    """existence of a circum-/in-ball decided by a residual threshold: borderline when x is nearly (but not
    exactly) cyclic / tangential.  Decided on x by asking a slightly perturbed copy."""
    return False


# ===================================================================== correspondence with the Lean models

def kabsch(n):
    Rm, _ = rowan.mapping.kabsch([n, -n], [[0, 0, 1], [0, 0, -1]])
    return np.asarray(Rm, dtype=float)


def tri_tokens(tris):
    return L([np.asarray(t, dtype=float) for t in tris])


def model_measures(ctx, shape, case):
    """run the matching model op on the implementation's own intermediate data; dict of model outputs or None"""
    cls = case["cls"]
    try:
        if cls == "ConvexPolyhedron":
            S = shape.vertices[shape.simplices]
            r = ctx.driver.F("cp.measures", tri_tokens(S))
            return {"volume": r[1], "centroid": np.array(r[2:5]), "area": r[5], "inertia": np.array(r[6:15]).reshape(3, 3)}
        if cls == "Polyhedron":
            tris = [np.array(t) for t in shape._surface_triangulation()]
            vol = float(shape.volume)
            r = ctx.driver.F("poly.measures", tri_tokens(tris), vol)
            out = {"centroid": np.array(r[0:3]), "inertia": np.array(r[3:12]).reshape(3, 3), "ntri": len(tris), "tri": []}
            for f in shape.faces:
                rr = ctx.driver.F("polytri.triangulate", L(list(shape.vertices[f])))
                out["tri"].append(np.array(rr[1:]).reshape(rr[0], 3, 3))
            return out
        if cls in ("Polygon", "ConvexPolygon"):
            N = np.array(shape.normal, dtype=float)
            r = ctx.driver.F("polygon.measures", L(list(np.array(shape.vertices, dtype=float))), N, kabsch(N), kabsch(Z))
            return {"signed_area": r[0], "area": r[1], "perimeter": r[2], "centroid": np.array(r[3:6]),
                    "planar": np.array(r[6:9]), "polar": r[9], "inertia": np.array(r[10:19]).reshape(3, 3)}
    except ModelRaise as e:
        return {"raise": e.kind}
    except Exception:  # noqa: BLE001  (the implementation raised while producing the model's input: the oracle reports it)
        return None
    return None


def correspondence(ctx, case, shape, obs, m, Ls, d, tag):
    """B: model on this shape's data vs the implementation's outputs on the same shape"""
    if m is None:
        return
    cls = case["cls"]
    if "raise" in m:
        ctx.disagree(tag + ":model-raised", case, m["raise"])
        return
    get = lambda n: obs[n][1] if obs.get(n, ("err",))[0] == "ok" else None
    if cls == "ConvexPolyhedron":
        table = [("volume", "volume", Ls ** 3), ("centroid", "centroid", Ls), ("area", "surface_area", d ** 2),
                 ("inertia", "inertia_tensor", Ls ** 2 * d ** 3)]
        op = "cp.measures"
    elif cls == "Polyhedron":
        table = [("centroid", "centroid", Ls), ("inertia", "inertia_tensor", Ls ** 2 * d ** 3)]
        op = "poly.measures"
        from coxeter.extern.polytri import polytri
        for k, f in enumerate(shape.faces):
            it = np.array(list(polytri.triangulate(shape.vertices[f])))
            if it.shape != m["tri"][k].shape or not np.array_equal(it, m["tri"][k]):
                ctx.disagree("polytri.triangulate" + tag, case, [k, it.tolist(), m["tri"][k].tolist()])
                break
    else:
        table = [("signed_area", "signed_area", Ls ** 2), ("area", "area", Ls ** 2), ("perimeter", "perimeter", Ls),
                 ("centroid", "centroid", Ls), ("planar", "planar_moments_inertia", Ls ** 4),
                 ("polar", "polar_moment_inertia", Ls ** 4), ("inertia", "inertia_tensor", Ls ** 4)]
        op = "polygon.measures"
    for mk, ik, sc in table:
        iv = get(ik)
        if iv is None:
            ctx.disagree(op + ":" + mk + tag, case, "implementation raised, model did not")
        elif not ctx.close_enough(np.asarray(iv, dtype=float), np.asarray(m[mk], dtype=float), sc):
            ctx.disagree(op + ":" + mk + tag, case, [np.asarray(iv).tolist(), np.asarray(m[mk]).tolist()])


def model_covariance(ctx, case, g, mx, mg, env):
    """the models on g(x) against g applied to the models on x (numerical shadow of Props/C09)"""
    if mx is None or mg is None or "raise" in mx or "raise" in mg:
        return
    cls = case["cls"]
    s, R = g["s"], g["R"]
    Lg, dg = env.Lg, env.dg
    bad = None
    if cls == "ConvexPolyhedron":
        if not ctx.close_enough(mx["volume"] * s ** 3, mg["volume"], dg ** 3):
            bad = "volume"
        elif not ctx.close_enough(mx["area"] * s ** 2, mg["area"], dg ** 2):
            bad = "area"
        elif not ctx.close_enough(gp(g, mx["centroid"]), mg["centroid"], Lg):
            bad = "centroid"
        else:
            ic = mx["inertia"] - pax(mx["volume"], mx["centroid"])
            e = s ** 5 * (R @ ic @ R.T) + pax(mx["volume"] * s ** 3, gp(g, mx["centroid"]))
            if not ctx.close_enough(e, mg["inertia"], Lg ** 2 * dg ** 3):
                bad = "inertia"
    elif cls == "Polyhedron":
        if not ctx.close_enough(gp(g, mx["centroid"]), mg["centroid"], Lg):
            bad = "centroid"
        elif mx["ntri"] != mg["ntri"]:
            bad = "number of triangles"
    elif cls in ("Polygon", "ConvexPolygon"):
        if not ctx.close_enough(mx["area"] * s * s, mg["area"], dg ** 2):
            bad = "area"
        elif not ctx.close_enough(mx["perimeter"] * s, mg["perimeter"], dg):
            bad = "perimeter"
        elif not ctx.close_enough(gp(g, mx["centroid"]), mg["centroid"], Lg):
            bad = "centroid"
    if bad:
        ctx.disagree("model-covariance:" + cls + ":" + bad, {"case": case, "g": g_json(g)}, "model(g x) != g model(x)")


# ===================================================================== generators of x

def g_json(g):
    return {"kind": g["kind"], "s": g["s"], "R": np.asarray(g["R"]).tolist(), "t": np.asarray(g["t"]).tolist(),
            "alpha": g["alpha"], "relabel": g["relabel"], "layout": g.get("layout"), "via": g.get("via", False)}


def g_from_json(j):
    return {"kind": j["kind"], "s": float(j["s"]), "R": np.array(j["R"], dtype=float), "t": np.array(j["t"], dtype=float),
            "alpha": j["alpha"], "relabel": j["relabel"], "layout": j.get("layout"), "via": j.get("via", False)}


def gen_convex3(rng, ctx, cls):
    placed = rng.random() < 0.4
    if placed:
        v, info = gen.convex_solid(rng, scale=1.0)
    else:
        v, info = gen.convex_solid(rng, scale=1.0, offset_diams=0.0, rotate=False)
    ctx.count("kind:%s:%s" % (cls, info["kind"]))
    case = {"cls": cls, "vertices": v.tolist(), "kind": info["kind"]}
    if cls == "ConvexSpheropolyhedron":
        case["radius"] = float(gen.diameter(v) * (0.0 if rng.random() < 0.1 else 10 ** rng.uniform(-2, 0)))
    return case


def gen_mesh(rng, ctx):
    import c02
    class _C:   # swallow the distribution counters of c02.make_mesh (re-counted below under C09's names)
        def count(self, *a, **k):
            pass
    m = c02.make_mesh(rng, _C())
    ctx.count("kind:Polyhedron:" + m["kind"].split(":")[0])
    # x itself at unit scale (the generator's own random scale is undone; its rotation / offset stay)
    m["vertices"] = (np.asarray(m["vertices"], dtype=float) / m["scale"]).tolist()
    return {"cls": "Polyhedron", "vertices": m["vertices"], "faces": [list(map(int, f)) for f in m["faces"]],
            "kind": m["kind"]}


def extruded_case(poly, z1, kind):
    """right prism over a simple polygon with MERGED (possibly non-convex) caps: faces go through polytri"""
    poly = np.asarray(poly, dtype=float)
    n = len(poly)
    V = np.vstack([np.c_[poly, np.zeros(n)], np.c_[poly, np.full(n, z1)]])
    F = [list(range(n - 1, -1, -1)), list(range(n, 2 * n))] + [[i, (i + 1) % n, n + (i + 1) % n, n + i] for i in range(n)]
    return {"cls": "Polyhedron", "vertices": V.tolist(), "faces": F, "kind": kind}


def gen_extruded(rng, ctx):
    while True:
        try:
            m = gen.c05_extruded_polygon(rng)
            break
        except RuntimeError:
            continue
    ctx.count("kind:Polyhedron:" + m["kind"] + ":merged-caps")
    case = {"cls": "Polyhedron", "vertices": np.asarray(m["vertices"], dtype=float).tolist(),
            "faces": [list(map(int, f)) for f in m["faces"]], "kind": m["kind"] + ":merged-caps"}
    if rng.random() < 0.5:   # placed: random rotation and offset (unit scale)
        Rm = gen.random_rotation(rng)
        u = rng.normal(size=3)
        V = np.asarray(case["vertices"]) @ Rm.T
        case["vertices"] = (V + u / np.linalg.norm(u) * rng.uniform(0, 10) * gen.diameter(V)).tolist()
    return case


def gen_polygon(rng, ctx, cls, axis_aligned=False):
    kinds_convex = ["convex", "rect", "triangle"]
    while True:
        if axis_aligned:
            kind, p2 = gen.polygon2d(rng, "rect")
        elif cls == "Polygon":
            kind, p2 = gen.polygon2d(rng)
        else:
            kind, p2 = gen.polygon2d(rng, kinds_convex[int(rng.integers(3))])
        # no straight corner anywhere: every cyclic shift / reversal must stay constructible (the normal is taken
        # from the first corner; a straight first corner is the known C15 finding, not the subject here)
        e1 = np.roll(p2, -1, axis=0) - p2
        e2 = np.roll(p2, -2, axis=0) - np.roll(p2, -1, axis=0)
        turn = np.abs(e1[:, 0] * e2[:, 1] - e1[:, 1] * e2[:, 0]) / (np.linalg.norm(e1, axis=1) * np.linalg.norm(e2, axis=1))
        if turn.min() > 1e-3:
            break
    plane = "xy" if (axis_aligned or rng.random() < 0.6) else ("neartilt" if rng.random() < 0.4 else "random")
    v, fr = gen.embed_polygon(rng, p2, plane=plane, offset_diams=(0.0 if rng.random() < 0.4 else None))
    if plane == "neartilt":
        ctx.count("plane:neartilt")
        plane = "random"          # (for the laws: not the xy frame)
    orientation = "ccw"
    if cls == "Polygon" and rng.random() < 0.35:
        v = v[::-1].copy()
        orientation = "cw"
    normal = None
    if rng.random() < 0.3:
        normal = (fr["n"] if rng.random() < 0.7 else -fr["n"]).tolist()
    ctx.count("kind:%s:%s" % (cls, kind))
    ctx.count("plane:" + plane)
    case = {"cls": cls, "vertices": v.tolist(), "normal": normal, "kind": kind, "plane": plane,
            "orientation": orientation}
    if plane == "xy" and np.all(v[:, 2] == 0.0):
        case["layout"] = "N2" if rng.random() < 0.5 else "N3"
        ctx.count("layout:" + case["layout"])
    if cls == "ConvexSpheropolygon":
        case["radius"] = float(gen.diameter(v) * (0.0 if rng.random() < 0.1 else 10 ** rng.uniform(-2, 0)))
    return case


def gen_curved(rng, ctx, cls):
    r = [float(10 ** rng.uniform(-0.5, 0.5)) for _ in range(3)]
    if rng.random() < 0.2:
        r[1] = r[0]
    m = max(r)
    ck = int(rng.integers(3))
    c = [0.0, 0.0, 0.0] if ck == 0 else [float(v) for v in rng.uniform(-3 * m, 3 * m, size=3)]
    ctx.count("kind:" + cls)
    if cls in ("Circle", "Sphere"):
        return {"cls": cls, "radius": r[0], "center": c, "plane": "xy"}
    if cls == "Ellipse":
        return {"cls": cls, "a": r[0], "b": r[1], "center": c, "plane": "xy"}
    return {"cls": cls, "a": r[0], "b": r[1], "c": r[2], "center": c}


def box_case(cls, e, radius=None):
    v = np.array(list(itertools.product([-1.0, 1.0], repeat=3))) * np.asarray(e, dtype=float)
    case = {"cls": cls, "vertices": v.tolist(), "kind": "box-axis-aligned"}
    if cls == "Polyhedron":
        import coxeter
        cp = coxeter.shapes.ConvexPolyhedron(v)
        case["vertices"] = np.array(cp.vertices).tolist()
        case["faces"] = [list(map(int, f)) for f in cp.faces]
    if radius is not None:
        case["radius"] = radius
    return case


def rect_case(cls, w, h, o=(0.0, 0.0), radius=None, cw=False):
    v = np.array([[0, 0, 0], [w, 0, 0], [w, h, 0], [0, h, 0]], dtype=float) + np.array([o[0], o[1], 0.0])
    if cw:
        v = v[::-1].copy()
    case = {"cls": cls, "vertices": v.tolist(), "normal": None, "kind": "rect-axis-aligned", "plane": "xy",
            "orientation": "cw" if cw else "ccw"}
    if radius is not None:
        case["radius"] = radius
    return case


# ===================================================================== one case

G_KINDS = ["rotation", "translation", "scaling", "relabel", "composite"]


def eval_case(ctx, case, gs):
    with warnings.catch_warnings():
        warnings.simplefilter("ignore")      # numpy RuntimeWarnings of the library (arccos of -1-ulp, 0/0 in dts)
        _eval_case(ctx, case, gs)


def _eval_case(ctx, case, gs):
    """x = case, gs = list of transformations (dicts).  All queries on x once, on every g(x) once."""
    cls = case["cls"]
    try:
        sx = build(case)
    except Exception as e:  # noqa: BLE001
        ctx.fail("%s.__init__:raises" % cls, "constructor raised %s on a generated valid shape" % exc_kind(e), case, repr(e))
        return
    rng = np.random.default_rng(case.get("probe_seed", 0))
    pr0 = make_probes(rng, case, sx)
    exports_first = bool(rng.random() < 0.5)
    ctx.count("exports-first:%s" % exports_first)
    ctx.count("query-order:%s" % ("shuffled" if pr0.get("order") is not None else "alphabetical"))
    sx, ox = observe_checked(ctx, case, sx, pr0, "x", exports_first, {"case": case, "g": None})
    d = case_size(case)
    Ls = d + float(np.linalg.norm(ref_point(case)))
    mx = model_measures(ctx, sx, case)
    correspondence(ctx, case, sx, ox, mx, Ls, d, "")
    failed = {}
    for g in gs:
        if g["relabel"] is None and g["kind"] == "relabel":
            continue
        ctx.count("g:" + g["kind"])
        gcase = transform_case(case, g)
        record = {"case": case, "g": g_json(g)}
        try:
            sg = build(gcase)
        except Exception as e:  # noqa: BLE001
            ctx.fail("%s.__init__:covariance:%s" % (cls, g["kind"]),
                     "a valid shape became an error under %s: constructor raised %s" % (g["kind"], exc_kind(e)),
                     record, repr(e))
            continue
        if g.get("via"):
            # the same g(x), but REACHED THROUGH MUTATORS: whatever a mutator forgets to refresh is now stale
            sg, how = history.maybe_via_history(sg, history.rng_for([gcase.get("vertices", gcase.get("center")), g["s"]]),
                                                1.0, ctx)
        if g.get("near_axis"):
            ctx.count("g:near-axis")
        pr = map_probes(pr0, g)
        sg, og = observe_checked(ctx, gcase, sg, pr, "g", exports_first, record)
        env = Env(ctx, case, gcase, g, sx, sg, ox, og, pr)
        res = compare(env)
        if getattr(env, "flipped", None):
            # one finding: every query derived from the stored plane equations is reported under the normals
            res = [r for r in res if r[0] not in ("insphere", "insphere_radius", "compute_form_factor_amplitude")]
        for name, what, detail in res:
            if what == "REFLEX":
                ctx.fail("%s.normals:normal-from-reflex-first-corner" % cls,
                         "the stored normal / plane equation of a non-convex face is taken from its first corner: "
                         "listing the face from another vertex (reflex first corner) inverts it", record,
                         sorted(env.flipped))
                continue
            if what == "NAN":
                ctx.fail("%s.get_dihedral:nan-for-coplanar-neighbours" % cls,
                         "get_dihedral of two coplanar neighbouring faces is pi on one side of g and nan on the other "
                         "(arccos of -1 - ulp)", record, detail)
                continue
            if g["kind"] == "composite" and name in failed:
                continue               # already reported under the elementary transformation
            kind = g["kind"]
            if kind == "composite":
                kind = attribute(ctx, case, sx, ox, pr0, g, name)
            failed[name] = True
            ctx.fail("%s.%s:covariance:%s" % (cls, name, kind), "%s under %s: %s" % (name, g["kind"], what),
                     record, detail)
        # B on g(x) and model-level covariance
        mg = model_measures(ctx, sg, gcase)
        correspondence(ctx, gcase, sg, og, mg, env.Lg, env.dg, ":on-g(x)")
        model_covariance(ctx, case, g, mx, mg, env)


def observe_checked(ctx, case, shape, pr, which, exports_first, record):
    """observe; an export that raises AND leaves the shape moved is reported once (its own signature), and the
    observation is repeated on a fresh copy without the exports-first prelude"""
    obs = observe(shape, pr, which, ctx, lambda: build(case), exports_first)
    if "__export_moved__" in obs:
        nm, kind, moved = obs["__export_moved__"][1]
        ctx.fail("%s.%s:raises-and-leaves-shape-moved" % (case["cls"], nm),
                 "%s raised %s half-way and left the shape translated (by %r): every later query answers for a shape "
                 "at another position" % (nm, kind, moved), record, [nm, kind, moved])
        shape = build(case)
        obs = observe(shape, pr, which, ctx, lambda: build(case), False)
    return shape, obs


def attribute(ctx, case, sx, ox, pr0, g, name):
    """a composite transformation failed on query `name`: find the first elementary part that fails alone"""
    parts = []
    if not np.allclose(g["R"], np.eye(3)):
        parts.append(dict(g, kind="rotation", s=1.0, t=np.zeros(3), relabel=None))
    if np.any(g["t"] != 0):
        parts.append(dict(g, kind="translation", s=1.0, R=np.eye(3), alpha=None, t=g["t"] / g["s"], relabel=None))
    if g["s"] != 1.0:
        parts.append(dict(g, kind="scaling", R=np.eye(3), alpha=None, t=np.zeros(3), relabel=None))
    if g["relabel"] is not None:
        parts.append(dict(g, kind="relabel", s=1.0, R=np.eye(3), alpha=None, t=np.zeros(3)))
    for h in parts:
        try:
            hcase = transform_case(case, h)
            sh = build(hcase)
            pr = map_probes(pr0, h)
            oh = observe(sh, pr, "g", ctx, lambda: build(hcase))
            env = Env(ctx, case, hcase, h, sx, sh, ox, oh, pr)
            if any(nm == name for nm, _, _ in compare(env)):
                return h["kind"]
        except Exception:  # noqa: BLE001
            return h["kind"]
    return "composite"


def new_case(rng, ctx):
    r = rng.random()
    if r < 0.16:
        c = gen_convex3(rng, ctx, "ConvexPolyhedron")
    elif r < 0.22:
        c = gen_convex3(rng, ctx, "ConvexSpheropolyhedron")
    elif r < 0.30:
        c = gen_mesh(rng, ctx)
    elif r < 0.34:
        c = gen_extruded(rng, ctx)
    elif r < 0.50:
        c = gen_polygon(rng, ctx, "Polygon")
    elif r < 0.64:
        c = gen_polygon(rng, ctx, "ConvexPolygon", axis_aligned=rng.random() < 0.3)
    elif r < 0.74:
        c = gen_polygon(rng, ctx, "ConvexSpheropolygon", axis_aligned=rng.random() < 0.3)
    elif r < 0.80:
        c = gen_curved(rng, ctx, "Circle")
    elif r < 0.87:
        c = gen_curved(rng, ctx, "Ellipse")
    elif r < 0.93:
        c = gen_curved(rng, ctx, "Sphere")
    else:
        c = gen_curved(rng, ctx, "Ellipsoid")
    c["probe_seed"] = int(rng.integers(2 ** 31))
    return c


def choose_gs(rng, case, ctx):
    cls = case["cls"]
    kinds = list(G_KINDS)
    if cls in ("Circle", "Ellipse", "Sphere", "Ellipsoid"):
        kinds.remove("relabel")
    if cls in ("Polyhedron", "ConvexSpheropolyhedron") and ctx.tier == "quick":
        # expensive classes: two elementary kinds + the composite
        el = [k for k in kinds if k != "composite"]
        keep = list(rng.choice(el, size=2, replace=False))
        kinds = keep + ["composite"]
    gs = [make_g(rng, k, case) for k in kinds]
    if cls in ("Polygon", "ConvexPolygon", "ConvexSpheropolygon"):
        gs.append(far_corner(rng, case))
    for g in gs:
        if "layout" in case:
            g["layout"] = "N2" if rng.random() < 0.5 else "N3"
        # g(x) reached through mutators (scaled, shifted copy -> every member read -> size / centroid setters)
        g["via"] = bool(rng.random() < 1.0 / 3.0)
    return gs


def far_corner(rng, case, s=None, u=None):
    """large and far away: scale 600..1000, then 8..10 (scaled) diameters off — coordinates ~1e4
    (the regime in which the unnormalised Bentley-Ottmann sweep rejected valid polygons)"""
    g = make_g(rng, "composite", case)
    g["s"] = float(rng.uniform(600, 1000)) if s is None else s
    size = case_size(case)
    u = rng.normal(size=3) if u is None else np.asarray(u, dtype=float)
    if case.get("plane") == "xy" and g["alpha"] is not None:
        u[2] = 0.0
    g["t"] = u / np.linalg.norm(u) * float(rng.uniform(8, 10)) * size * g["s"]
    return g


def corpus(ctx):
    """fixed cases run first: the repaired scale/position defects and the axis-aligned special cases"""
    out = []
    ident = lambda kind, **kw: dict({"kind": kind, "s": 1.0, "R": np.eye(3), "t": np.zeros(3), "alpha": None,
                                     "relabel": None}, **kw)
    scales = [ident("scaling", s=1e-3), ident("scaling", s=1e-2), ident("scaling", s=1e3)]
    # translations of 5-9 diameters of the shapes below (their diameters are 1.7 .. 4)
    far = [ident("translation", t=np.array([12.0, -9.0, 0.0])), ident("translation", t=np.array([9.0, 6.0, -12.0]))]
    rots = [ident("rotation", R=rot_z(0.3), alpha=0.3), ident("rotation", R=rot_z(np.pi / 4), alpha=np.pi / 4),
            ident("rotation", R=rot_z(2.0), alpha=2.0)]
    # unit cube as a general polyhedron: polytri thresholds (ear test, zero normal) at 1e-3, 1e-2
    out.append((box_case("Polyhedron", [0.5, 0.5, 0.5]), scales + far[1:] + [ident("rotation", R=gen.random_rotation(np.random.default_rng(5)))]))
    # L-shaped prism with merged caps is not constructible (non-convex face areas): a voxel L instead
    m = gen.c05_voxel_solid(np.random.default_rng(3), "L")
    out.append(({"cls": "Polyhedron", "vertices": np.asarray(m["vertices"], dtype=float).tolist(),
                 "faces": [list(map(int, f)) for f in m["faces"]], "kind": "voxel:L"}, scales + far[1:]))
    # needle box: faces with 2*area < 1e-8 at scale 1e-3 (absolute zero-normal test of polytri)
    out.append((box_case("Polyhedron", [1.5, 0.025, 0.025]), scales))
    # prisms over the Z and plus outlines, merged caps: small in-plane rotations leave a collinear remainder /
    # put a vertex on the boundary of an ear (degenerate-remainder exit, closed point-in-ear tolerance of polytri)
    zout = [(1.5, 1), (1, 1), (1, 0), (0, 0), (0, 1), (.5, 1), (.5, 2), (1.5, 2)]
    plus = [(1, 0), (2, 0), (2, 1), (3, 1), (3, 2), (2, 2), (2, 3), (1, 3), (1, 2), (0, 2), (0, 1), (1, 1)]
    small = [ident("rotation", R=rot_z(a), alpha=a) for a in (0.03, 0.26, 1.0, -0.7)]
    out.append((extruded_case(zout, 1.0, "extruded:Z:merged-caps"), small + scales[:1]))
    out.append((extruded_case(plus, 1.0, "extruded:plus:merged-caps"), small + scales[:1]))
    # axis-aligned boxes and rectangles against rotated copies (slope 0 / inf branches, argmax axis)
    out.append((box_case("ConvexPolyhedron", [1.0, 2.0, 0.5]), scales + far[1:] + [ident("rotation", R=gen.random_rotation(np.random.default_rng(6)))]))
    out.append((box_case("ConvexSpheropolyhedron", [1.0, 2.0, 0.5], radius=0.25), scales[:1] + [ident("rotation", R=gen.random_rotation(np.random.default_rng(7)))]))
    for cls in ("ConvexPolygon", "Polygon"):
        out.append((rect_case(cls, 2.0, 1.0, o=(-1.0, -0.5)), rots + scales + far))
        out.append((rect_case(cls, 2.0, 1.0, o=(0.25, 0.5)), rots + far[:1]))
    out.append((rect_case("Polygon", 2.0, 1.0, o=(-1.0, -0.5), cw=True), rots + scales))
    out.append((rect_case("ConvexSpheropolygon", 2.0, 1.0, o=(-1.0, -0.5), radius=0.3), rots + scales + far[:1]))
    # the same vertices listed clockwise (normal -z): distance_to_surface must not mirror the shape
    rev = ident("relabel", relabel={"perm": [3, 2, 1, 0]})
    out.append((rect_case("ConvexPolygon", 2.0, 1.0, o=(0.25, 0.5)), [rev]))
    out.append((dict(rect_case("ConvexPolygon", 2.5, 2.0), vertices=[[1, 2.5, 0], [3.5, 2, 0], [3, 0, 0], [0, 0, 0]][::-1]), [rev]))
    out.append((rect_case("ConvexSpheropolygon", 1.0, 1.0, radius=0.1), [rev]))
    # large and far away (coordinates ~1e4): star / spiral polygons that an unnormalised sweep rejects
    for seed, kind in ((0, "star"), (3, "spiral"), (44, "star"), (56, "star")):
        _, p2 = gen.polygon2d(np.random.default_rng(seed), kind)
        c = {"cls": "Polygon", "vertices": np.c_[p2, np.zeros(len(p2))].tolist(), "normal": None, "kind": kind,
             "plane": "xy", "orientation": "ccw"}
        size = case_size(c)
        gs = []
        for u in ((1.0, 1.0, 0.0), (1.0, -0.3, 0.0), (-0.6, 1.0, 0.0)):
            u = np.array(u)
            gs.append(ident("composite", s=800.0, t=u / np.linalg.norm(u) * 9.0 * size * 800.0))
        out.append((c, gs))
    # Bentley-Ottmann sweep on a normalised copy: a valid comb far from the origin / large
    comb = np.array([[0, -0.5], [3.4, -0.5], [3.4, 0], [3.4, 1.5], [2.4, 1.5], [2.4, 0], [2.0, 0], [2.0, 1.0], [1.0, 1.0],
                     [1.0, 0], [0.6, 0], [0.6, 2.0], [0, 2.0], [0, 0]], dtype=float)
    comb = np.delete(comb, [2, 13], axis=0)
    out.append(({"cls": "Polygon", "vertices": np.c_[comb, np.zeros(len(comb))].tolist(), "normal": None, "kind": "comb",
                 "plane": "xy", "orientation": "ccw"}, scales + far + rots[:1]))
    # regular polygon / solid: in- and circum-balls exist at every size (relative residual tolerance)
    hexa = np.c_[gen.ngon(6), np.zeros(6)]
    out.append(({"cls": "ConvexPolygon", "vertices": hexa.tolist(), "normal": None, "kind": "regular", "plane": "xy",
                 "orientation": "ccw"}, scales + far + rots[:1]))
    octa = np.array([[1, 0, 0], [-1, 0, 0], [0, 1, 0], [0, -1, 0], [0, 0, 1], [0, 0, -1]], dtype=float)
    out.append(({"cls": "ConvexPolyhedron", "vertices": octa.tolist(), "kind": "octahedron"}, scales + far[1:]))
    out.append(({"cls": "Polyhedron", "vertices": octa.tolist(), "kind": "octahedron",
                 "faces": [[0, 2, 4], [2, 1, 4], [1, 3, 4], [3, 0, 4], [2, 0, 5], [1, 2, 5], [3, 1, 5], [0, 3, 5]]},
                scales + far[1:]))
    # tilted rectangle: rotation direction of Polygon.inertia_tensor
    tilt = gen.random_rotation(np.random.default_rng(11))
    rv = (np.array(rect_case("Polygon", 2.0, 1.0)["vertices"]) + np.array([0.3, 0.2, 0.1])) @ tilt.T
    out.append(({"cls": "Polygon", "vertices": rv.tolist(), "normal": None, "kind": "rect-tilted", "plane": "random",
                 "orientation": "ccw"}, [ident("rotation", R=gen.random_rotation(np.random.default_rng(12)))] + scales[:1] + far[1:]))
    # absolute isclose(q^2, 0) window of the form factors (known finding): |q| size = 0.05 at scale 1e3
    for cls, base in (("Sphere", {"cls": "Sphere", "radius": 1.0, "center": [0.0, 0.0, 0.0]}),
                      ("ConvexPolyhedron", box_case("ConvexPolyhedron", [0.5, 0.5, 0.5])),
                      ("Polyhedron", box_case("Polyhedron", [0.5, 0.5, 0.5])),
                      ("Polygon", rect_case("Polygon", 1.0, 1.0)), ("ConvexPolygon", rect_case("ConvexPolygon", 1.0, 1.0))):
        c = dict(base)
        c["window"] = True
        out.append((c, [ident("scaling", s=1e3)]))
    # out-of-plane tolerance of Circle / Ellipse.is_inside (was absolute; repaired bab419e): size 1e-3 against size 1
    out.append(({"cls": "Circle", "radius": 1e-3, "center": [0.0, 0.0, 0.0], "plane": "xy", "window": "z"},
                [ident("scaling", s=1e3)]))
    out.append(({"cls": "Ellipse", "a": 1e-3, "b": 2e-3, "center": [0.0, 0.0, 0.0], "plane": "xy", "window": "z"},
                [ident("scaling", s=1e3)]))
    # coplanarity tolerance (was relative to the plane's distance from the origin; repaired 744f807): float32 pentagon
    pv = planarity_polygon()
    for cls in ("Polygon", "ConvexPolygon"):
        vv = pv if cls == "Polygon" else pv[:4]
        out.append(({"cls": cls, "vertices": vv.tolist(), "normal": None, "kind": "float32-pentagon", "plane": "random",
                     "orientation": "ccw", "window": "planarity"},
                    [ident("translation", t=-vv[0]), ident("translation", t=-vv.mean(axis=0))]))
    # almost axis-aligned copies of axis-aligned shapes (slope ~ +-1e-7..3e-2 next to the slope 0 / infinity branches of
    # distance_to_surface and _get_outward_unit_normal; normals next to the argmax ties of signed_area)
    nq = [ident("rotation", R=rot_z(a), alpha=a) for a in
          (1e-7, -1e-7, 3e-6, 8e-6, np.pi / 2 + 1e-5, np.pi - 2e-4, 3 * np.pi / 2 - 3e-3, 3e-2, np.pi / 2 - 1e-7)]
    for cls in ("ConvexPolygon", "Polygon"):
        out.append((rect_case(cls, 2.0, 1.0, o=(-1.0, -0.5)), nq))
        out.append((rect_case(cls, 2.0, 1.0, o=(0.25, 0.5)), nq[::2]))
    out.append((rect_case("ConvexSpheropolygon", 2.0, 1.0, o=(-1.0, -0.5), radius=0.3), nq))
    # x ITSELF in an almost-flat plane (tilt 3e-7 / 2e-8 rad about an in-plane axis, optionally flipped), far from the
    # origin along the normal: a shortcut that treats "normal ~ +-z" as "normal = +-z" is wrong to first order in
    # tilt * offset / size, while the rotated copy is computed in the general way
    for tilt, flip in ((3e-7, False), (2e-8, True), (4e-5, False)):
        ax = np.array([1.0, 1.0, 0.0]) / np.sqrt(2.0)
        K = np.array([[0, -ax[2], ax[1]], [ax[2], 0, -ax[0]], [-ax[1], ax[0], 0]])
        Rt = np.eye(3) + np.sin(tilt) * K + (1 - np.cos(tilt)) * (K @ K)
        if flip:
            Rt = Rt @ np.diag([1.0, -1.0, -1.0])
        rv = np.array(rect_case("Polygon", 2.0, 1.0, o=(0.25, 0.5))["vertices"]) @ Rt.T + np.array([3.0, -2.0, 17.0])
        for cls in ("Polygon", "ConvexPolygon"):
            out.append(({"cls": cls, "vertices": rv.tolist(), "normal": None, "kind": "rect-nearflat", "plane": "random",
                         "orientation": "ccw"},
                        [ident("rotation", R=gen.random_rotation(np.random.default_rng(31))), scales[0],
                         ident("translation", t=np.array([-3.0, 2.0, -17.0]))]))
    na = [ident("rotation", R=gen.near_axis_rotation(np.random.default_rng(k))) for k in (21, 22, 23, 24)]
    out.append((box_case("ConvexPolyhedron", [1.0, 2.0, 0.5]), na))
    out.append((box_case("Polyhedron", [1.0, 2.0, 0.5]), na[:2]))
    out.append((rect_case("Polygon", 2.0, 1.0, o=(0.25, 0.5)), na))
    out.append((rect_case("ConvexPolygon", 2.0, 1.0, o=(-1.0, -0.5)), na[1:3]))
    return out


# ===================================================================== coordinate ties (Polyhedron.is_inside)

def _convex_truth(V):
    """exact-membership oracle of a convex solid: (inside, outside) masks with a margin of 1e-6 sizes, from the facet
    planes of scipy's hull of V (independent of the library)"""
    from scipy.spatial import ConvexHull
    h = ConvexHull(V)
    size = gen.diameter(V)

    def truth(P):
        d = (P @ h.equations[:, :3].T + h.equations[:, 3]).max(axis=1)
        return d < -1e-6 * size, d > 1e-6 * size
    return truth


def _voxel_truth(cells, spacing):
    """exact-membership oracle of a voxel solid: the eight points p +- eps(1,1,1) (never on a lattice plane) are
    classified by their cell; all eight filled -> interior, none -> exterior, otherwise boundary (no verdict)"""
    filled = set(tuple(int(x) for x in c) for c in cells)
    sp = np.asarray(spacing, dtype=float)

    def truth(P):
        cnt = np.zeros(len(P), dtype=int)
        for sg in itertools.product([-1.0, 1.0], repeat=3):
            Q = P / sp + 1e-4 * np.array(sg)
            idx = np.floor(Q).astype(int)
            cnt += np.array([tuple(i) in filled for i in idx], dtype=int)
        return cnt == 8, cnt == 0
    return truth


def tie_shapes(ctx):
    """general Polyhedra given in 'nice' coordinates: tabulated solids as the library stores them, hulls of
    integer points, voxel solids.  Yields (kind, vertices, faces, truth)."""
    import coxeter
    from coxeter.families import ArchimedeanFamily, CatalanFamily, JohnsonFamily, PlatonicFamily
    rng = ctx.rng
    picks = [(PlatonicFamily, "Dodecahedron"), (PlatonicFamily, "Icosahedron")]
    for fam, k in ((ArchimedeanFamily, 3 if ctx.tier == "quick" else 13), (CatalanFamily, 3 if ctx.tier == "quick" else 13), (JohnsonFamily, 6 if ctx.tier == "quick" else 30)):
        names = sorted(fam.data.keys())
        for i in rng.choice(len(names), size=k, replace=False):
            picks.append((fam, names[int(i)]))
    for fam, name in picks:
        cp = fam.get_shape(name)
        V = np.array(cp.vertices, dtype=float)
        yield "tabulated:" + name, V, [[int(i) for i in f] for f in cp.faces], _convex_truth(V)
    for _ in range(6 if ctx.tier == "quick" else 40):
        while True:
            pts = np.unique(rng.integers(-4, 5, size=(int(rng.integers(7, 16)), 3)), axis=0).astype(float)
            try:
                cp = coxeter.shapes.ConvexPolyhedron(pts)
                break
            except Exception:  # noqa: BLE001  (flat / too few points)
                continue
        V = np.array(cp.vertices, dtype=float)
        yield "integer-hull", V, [[int(i) for i in f] for f in cp.faces], _convex_truth(V)
    for _ in range(4 if ctx.tier == "quick" else 25):
        m = gen.c05_voxel_solid(rng)
        yield m["kind"], np.asarray(m["vertices"], dtype=float), [list(map(int, f)) for f in m["faces"]], \
            _voxel_truth(m["cells"], m["spacing"])


def tie_points(rng, V, F):
    """query points that share TWO coordinates exactly with a vertex (or with an edge midpoint): straight above /
    below / beside it — far outside (2..4 circumradii) and along the axis-parallel lines through the shape"""
    c = V.mean(axis=0)
    R = float(np.linalg.norm(V - c, axis=1).max())
    vi = rng.permutation(len(V))[:24]
    far = [V[i] + sg * t * R * np.eye(3)[k] for i in vi for k in range(3) for sg in (1.0, -1.0)
           for t in (float(rng.uniform(2, 4)),)]
    edges = sorted({(min(a, b), max(a, b)) for f in F for a, b in zip(f, f[1:] + f[:1])})
    mids = [0.5 * (V[a] + V[b]) for a, b in (edges[i] for i in rng.permutation(len(edges))[:16])]
    anchors = [V[i] for i in vi[:16]] + mids
    through = []
    for a in anchors:
        for k in range(3):
            for z in c[k] + R * np.array([-0.9, -0.55, -0.2, 0.1, 0.45, 0.8]):
                q = np.array(a, dtype=float)
                q[k] = z
                through.append(q)
    return np.array(far), np.array(through), c, R


def eval_ties(ctx):
    """Polyhedron.is_inside at points with exact coordinate ties (the sign tie-breaks of the winding code are consulted
    only there), on x and on a generically rotated copy (no ties), both against an exact membership oracle."""
    import coxeter
    with warnings.catch_warnings():
        warnings.simplefilter("ignore")
        for kind, V, F, truth in tie_shapes(ctx):
            rng = ctx.rng
            g = {"kind": "rotation", "s": 1.0, "R": gen.random_rotation(rng), "t": np.zeros(3), "alpha": None, "relabel": None}
            if rng.random() < 0.5:
                g = dict(g, kind="composite", s=float(10 ** rng.uniform(-3, 3)))
                g["t"] = rng.normal(size=3) * float(rng.uniform(0, 10)) * gen.diameter(V) * g["s"]
            case = {"cls": "Polyhedron", "vertices": V.tolist(), "faces": F, "kind": "ties:" + kind}
            record = {"case": case, "g": g_json(g), "ties": True}
            ctx.case({"case": case, "gs": [g_json(g)], "ties": True})
            ctx.count("ties:" + kind.split(":")[0])
            try:
                px = coxeter.shapes.Polyhedron(V, [np.array(f) for f in F])
                pg = coxeter.shapes.Polyhedron(gp(g, V), [np.array(f) for f in F])
            except Exception as e:  # noqa: BLE001
                ctx.fail("Polyhedron.__init__:raises", "constructor raised on a tabulated / lattice solid", record, repr(e))
                continue
            far, through, c, R = tie_points(rng, V, F)
            P = np.vstack([far, through])
            ins, out = truth(P)
            assert out[:len(far)].all() or kind.startswith("voxel")     # beyond the circumsphere
            ix = np.asarray(px.is_inside(P), dtype=bool)
            ig = np.asarray(pg.is_inside(gp(g, P)), dtype=bool)
            known = ins | out
            ctx.skipped_near_boundary += int((~known).sum())
            ctx.count("ties:points", int(known.sum()))
            ctx.count("ties:inside", int(ins.sum()))
            bad_cov = np.where(known & (ix != ig))[0]
            bad_x = np.where(known & (ix != ins))[0]
            bad_g = np.where(known & (ig != ins))[0]
            if len(bad_cov):
                i = int(bad_cov[0])
                ctx.fail("Polyhedron.is_inside:covariance:%s" % ("rotation" if g["kind"] == "rotation" else "composite"),
                         "is_inside under %s: a point sharing two coordinates exactly with a vertex / edge midpoint is "
                         "classified differently for x (coordinate ties) and for the generically placed copy g(x): "
                         "point %r exact membership %r, is_inside(x)=%r, is_inside(g x)=%r (%d of %d points differ)"
                         % (g["kind"], P[i].tolist(), bool(ins[i]), bool(ix[i]), bool(ig[i]), len(bad_cov), int(known.sum())),
                         record, {"point": P[i].tolist(), "circumradius": R, "centre": c.tolist()})
            elif len(bad_x) or len(bad_g):
                i = int((list(bad_x) + list(bad_g))[0])
                ctx.fail("Polyhedron.is_inside:exact-membership:coordinate-ties",
                         "is_inside disagrees with the exact membership on x and on g(x) alike: point %r membership %r"
                         % (P[i].tolist(), bool(ins[i])), record, {"point": P[i].tolist()})


def eval_window_case(ctx, case, g):
    """form factor at |q| size = 0.05: on x the wave vector is outside the absolute window, on 1000 x inside"""
    cls = case["cls"]
    sx, gcase = build(case), transform_case(case, g)
    sg = build(gcase)
    q = np.array([[0.03, 0.04, 0.0]])
    with warnings.catch_warnings():
        warnings.simplefilter("ignore")
        fx = np.asarray(sx.compute_form_factor_amplitude(q), dtype=complex)
        fg = np.asarray(sg.compute_form_factor_amplitude(q / g["s"]), dtype=complex)
    deg = 2 if cls in ("Polygon", "ConvexPolygon") else 3
    e = g["s"] ** deg * fx
    meas = abs(fx[0])
    if abs(e[0] - fg[0]) > 1e-7 * g["s"] ** deg * meas:
        ctx.fail("%s.compute_form_factor_amplitude:isclose-window:scaling" % cls,
                 "form factor is not scale covariant: a wave vector with |q| size = 0.05 falls into the absolute "
                 "np.isclose(q^2, 0) window at scale 1e3 only", {"case": case, "g": g_json(g), "q": q.tolist()},
                 [complex(e[0]), complex(fg[0])])


def eval_zwindow_case(ctx, case, g):
    """Circle / Ellipse.is_inside: the out-of-plane switch was np.isclose(z, 0), absolute (1e-8): a point 2.5e-6 sizes
    above the plane of a shape of size 1e-3 was 'inside', the same configuration at size 1 was not (repaired in bab419e:
    atol = 1e-8 * size; this case reports the defect if it returns)."""
    cls = case["cls"]
    sx, gcase = build(case), transform_case(case, g)
    sg = build(gcase)
    size = case_size(case)
    p = np.asarray(case["center"], dtype=float) + np.array([0.05, 0.1, 2.5e-6]) * size
    ix = bool(np.asarray(sx.is_inside(np.array([p])))[0])
    ig = bool(np.asarray(sg.is_inside(np.array([gp(g, p)])))[0])
    ctx.count("zwindow:" + cls)
    if ix != ig:
        ctx.fail("%s.is_inside:isclose-z-window:scaling" % cls,
                 "containment is not scale covariant: a point 2.5e-6 sizes off the plane is inside at size 1e-3 and "
                 "outside at size 1 (an absolute out-of-plane tolerance such as np.isclose(z, 0))",
                 {"case": case, "g": g_json(g), "point": p.tolist()}, [ix, ig])


def planarity_polygon():
    """a pentagon in a tilted plane 0.4 away from the origin whose coordinates were rounded to float32 (out-of-plane
    deviation ~3e-8 of its size).  Before 744f807 the coplanarity tolerance was 1e-8 + 1e-5*|d| with d the distance of
    the PLANE FROM THE ORIGIN: accepted where it is, rejected once its plane passes through the origin"""
    R = gen.random_rotation(np.random.default_rng(1))
    sq = np.array([[0, 0, 0], [1, 0, 0], [1, 1, 0], [0, 1, 0.0], [-0.3, 0.5, 0]]) - 0.4
    return (sq @ R.T).astype(np.float32).astype(float)


def eval_planarity_case(ctx, case, g):
    cls = case["cls"]
    try:
        build(case)
    except Exception as e:  # noqa: BLE001
        ctx.fail("%s.__init__:raises" % cls, "constructor raised %s on the corpus polygon" % exc_kind(e), case, repr(e))
        return
    ctx.count("planarity:" + cls)
    try:
        build(transform_case(case, g))
    except ValueError as e:
        if "coplanar" in str(e):
            ctx.fail("%s.__init__:planarity-tolerance:%s" % (cls, g["kind"]),
                     "a polygon accepted by the constructor becomes 'Not all vertices are coplanar' under a %s: the "
                     "coplanarity test depends on where the polygon is (e.g. a tolerance proportional to the distance "
                     "of the plane from the origin instead of the polygon's size)" % g["kind"], {"case": case, "g": g_json(g)}, str(e))
        else:
            ctx.fail("%s.__init__:covariance:%s" % (cls, g["kind"]), "constructor raised on g(x)", {"case": case, "g": g_json(g)}, str(e))


def run_corpus_case(ctx, case, gs):
    w = case.get("window")
    if w is True:
        eval_window_case(ctx, case, gs[0])
    elif w == "z":
        eval_zwindow_case(ctx, case, gs[0])
    elif w == "planarity":
        for g in gs:
            eval_planarity_case(ctx, case, g)
    else:
        eval_case(ctx, case, gs)


def run(ctx):
    if ctx.widen == 1:
        for case, gs in corpus(ctx):
            case = dict(case, probe_seed=1)
            ctx.case({"case": case, "gs": [g_json(g) for g in gs]})
            ctx.count("corpus")
            run_corpus_case(ctx, case, gs)
    n = ctx.budget(110, 1600)
    for _ in range(n):
        case = new_case(ctx.rng, ctx)
        gs = choose_gs(ctx.rng, case, ctx)
        ctx.case({"case": case, "gs": [g_json(g) for g in gs]})
        eval_case(ctx, case, gs)
    eval_ties(ctx)


def replay_ties(ctx, rec):
    """a recorded tie case: same shape and g, the tie points redrawn from the case's own vertices"""
    import coxeter
    case, g = rec["case"], g_from_json(rec["g"] if "g" in rec else rec["gs"][0])
    V, F = np.array(case["vertices"], dtype=float), case["faces"]
    ctx.case({"case": case, "gs": [g_json(g)], "ties": True})
    try:
        truth = _convex_truth(V)
        hullv = len(__import__("scipy.spatial").spatial.ConvexHull(V).vertices)
    except Exception:  # noqa: BLE001
        hullv = -1
    with warnings.catch_warnings():
        warnings.simplefilter("ignore")
        px = coxeter.shapes.Polyhedron(V, [np.array(f) for f in F])
        pg = coxeter.shapes.Polyhedron(gp(g, V), [np.array(f) for f in F])
        rng = np.random.default_rng(0)
        far, through, c, R = tie_points(rng, V, F)
        P = far if hullv != len(V) else np.vstack([far, through])      # non-convex (voxel): far points only
        ix = np.asarray(px.is_inside(P), dtype=bool)
        ig = np.asarray(pg.is_inside(gp(g, P)), dtype=bool)
    if hullv == len(V):
        ins, out = truth(P)
        known = ins | out
    else:
        ins, known = np.zeros(len(P), dtype=bool), np.ones(len(P), dtype=bool)
    bad = np.where(known & ((ix != ig) | (ix != ins)))[0]
    if len(bad):
        i = int(bad[0])
        ctx.fail("Polyhedron.is_inside:covariance:%s" % ("rotation" if g["kind"] == "rotation" else "composite"),
                 "is_inside at a point with coordinate ties: point %r membership %r is_inside(x)=%r is_inside(g x)=%r"
                 % (P[i].tolist(), bool(ins[i]), bool(ix[i]), bool(ig[i])), rec, None)


def replay(ctx, payload):
    rec = payload.get("case", payload)
    if rec.get("ties"):
        return replay_ties(ctx, rec)
    if "gs" in rec:
        case, gs = rec["case"], [g_from_json(j) for j in rec["gs"]]
    else:
        case, gs = rec["case"], ([g_from_json(rec["g"])] if rec.get("g") else [])
    ctx.case({"case": case, "gs": [g_json(g) for g in gs]})
    run_corpus_case(ctx, case, gs)
